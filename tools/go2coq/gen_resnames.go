package main

// Statement-level translation of the ByteStream resource-name parsers (server/grpc_bytestream.go:
// parseReadResource, parseWriteResource) and of cache.LookupKey / cache.TransformActionCacheKey
// (cache/cache.go) into Gallina: Gen/ResNamesSrc.v.  Run-time: Model/GoStrings.v.
//
//   string / int, int64 / bool / []string / error      string / Z / bool / list string / option errc
//   <casblob constant>                                   ResNamesSrc_casblob_<Name> : Z (value read from casblob)
//   strings.Split(a, b)                                  p <- strings_Split a b;;
//   x[i]                                                 p <- index x i "<func>: x[i]";;      (Panic when out of range)
//   x[i:]                                                p <- slice_from x i "<func>: x[i:]";; (Panic when out of range)
//   len(x)                                               (go_len x) / (go_strlen x)
//   a == b, a != b, <, <=, >, >=, !, +, -                String.eqb / =? / Bool.eqb / <? ... / negb / + (Z; ++ on strings)
//   a || b, a && b                                       (a || b), (a && b) when b cannot panic, otherwise
//                                                        p <- (if a then Ok true else (<steps of b>;; Ok b));;
//   v, err := strconv.ParseInt(a, b, c)                  bind (strconv_ParseInt a b c) (fun '(v_v, v_err) => ..)
//   err = s.validateHash(a, b, c)                        v_err <- grpcServer_validateHash a b c;;
//   fmt.Sprintf(f, a..)                                  (steps of a..) (fmt_Sprintf f)
//   status.Error(codes.C, m) / status.Errorf(codes.C, f, a..)   (status_Error codes_C m) / (steps of a..) (status_Errorf codes_C f)
//   s.accessLogger.Printf(..), logger.Printf(..)         (steps of the arguments), nothing else
//   var x T / x := e / x = e                             let v_x := .. in / v_x <- ..;;
//   if c { A } [else { B }]; K                           if c then A[;K] else B[;K]
//   for i := range x { B }   (B may `break`)             bind (range_index x (fun v_i <assigned outer locals> => B) <locals>) (fun <locals> => K)
//   return a, b, c, e                                    go_return (a, b, c) e        (e = nil: None)
//   return a                                             Ok a
//   h := sha256.New(); h.Write([]byte(x)); b := h.Sum(nil); hex.EncodeToString(b[:])
//                                                        sha256_New, (sha256_Write h (bytes_of x)), (sha256_Sum H h), (hex_EncodeToString b)
//                                                        with H the SHA-256 hex function (a parameter of the translated function)
//
// Nothing about the functions themselves is known to this file.  Anything outside the subset stops the
// translation of ALL listed functions: ResNamesSrc.v then only holds the reason, Proofs/ResNames_refine.v
// does not compile and the check reports the obligation as broken.

import (
	"bytes"
	"fmt"
	"go/ast"
	"go/constant"
	"go/token"
	"go/types"
	"os"
	"path/filepath"
	"strconv"
	"strings"
)

func init() { areas = append(areas, genResNames) }

var rnFuncs = []struct{ dir, recv, name string }{
	{"server", "grpcServer", "parseReadResource"},
	{"server", "grpcServer", "parseWriteResource"},
	{"cache", "", "LookupKey"},
	{"cache", "", "TransformActionCacheKey"},
}

type rnUnsupported string

func rnDie(format string, a ...interface{}) { panic(rnUnsupported(fmt.Sprintf(format, a...))) }

type rnKind int

const (
	rnNone rnKind = iota
	rnString
	rnInt
	rnBool
	rnStrs  // []string
	rnErr   // error
	rnNil   // the literal nil
	rnCode  // codes.Code
	rnCmp   // casblob.CompressionType
	rnEKind // cache.EntryKind
	rnHash  // hash.Hash being written
	rnBytes // []byte
	rnOpaque
)

func (k rnKind) String() string {
	return [...]string{"?", "string", "int", "bool", "[]string", "error", "nil", "codes.Code", "casblob.CompressionType",
		"cache.EntryKind", "hash.Hash", "[]byte", "an untranslated value"}[k]
}

func (k rnKind) coq(at string) string {
	switch k {
	case rnString:
		return "string"
	case rnInt, rnCmp, rnEKind:
		return "Z"
	case rnBool:
		return "bool"
	case rnStrs:
		return "list string"
	case rnErr:
		return "option errc"
	case rnHash, rnBytes:
		return "string"
	case rnOpaque:
		return "unit"
	}
	rnDie("%s: no Coq type for %s", at, k)
	return ""
}

type rnEnv map[string]rnKind

func (e rnEnv) clone() rnEnv {
	n := rnEnv{}
	for k, v := range e {
		n[k] = v
	}
	return n
}

type rnTr struct {
	p        *pkg
	name     string
	recv     string // receiver identifier ("" when none)
	results  []rnKind
	fresh    int
	usesSha  bool
	cmpConst map[string]bool // casblob constants used
	cmpOrder *[]string
}

type rnCtx struct {
	inLoop bool
	state  []string
}

func (t *rnTr) pos(n ast.Node) string {
	return strings.TrimPrefix(t.p.fset.Position(n.Pos()).String(), repo+"/")
}

func (t *rnTr) tmp() string {
	t.fresh++
	return fmt.Sprintf("p%d", t.fresh)
}

func (t *rnTr) pkgPathOf(id *ast.Ident) string {
	if pn, ok := t.p.info.Uses[id].(*types.PkgName); ok {
		return pn.Imported().Path()
	}
	return ""
}

func (t *rnTr) site(e ast.Expr) string { return rnText(t.name + ": " + t.p.nodeText(e)) }

func rnText(s string) string {
	for _, r := range s {
		if r > 126 || (r < 32 && r != '\n' && r != '\t') {
			rnDie("non-printable character in the string %q", s)
		}
	}
	return coqString(s)
}

func (t *rnTr) typeKind(e ast.Expr) rnKind {
	switch x := e.(type) {
	case *ast.Ident:
		switch x.Name {
		case "string":
			return rnString
		case "int", "int64":
			return rnInt
		case "bool":
			return rnBool
		case "error":
			return rnErr
		case "EntryKind":
			if t.p.dir == "cache" {
				return rnEKind
			}
		}
	case *ast.ArrayType:
		if x.Len == nil {
			if id, ok := x.Elt.(*ast.Ident); ok && id.Name == "string" {
				return rnStrs
			}
		}
	case *ast.SelectorExpr:
		if id, ok := x.X.(*ast.Ident); ok {
			pp := t.pkgPathOf(id)
			if strings.HasSuffix(pp, "/cache/disk/casblob") && x.Sel.Name == "CompressionType" {
				return rnCmp
			}
		}
	}
	return rnOpaque
}

// (steps, term, kind): the steps are `x <- r` binds to run, in evaluation order, before term is used
func (t *rnTr) expr(e ast.Expr, env rnEnv) ([]string, string, rnKind) {
	if tv, ok := t.p.info.Types[e]; ok && tv.Value != nil {
		switch tv.Value.Kind() {
		case constant.String:
			return nil, rnText(constant.StringVal(tv.Value)), rnString
		case constant.Int:
			if _, exact := constant.Int64Val(tv.Value); !exact {
				rnDie("%s: integer constant %s does not fit an int64", t.pos(e), tv.Value.ExactString())
			}
			return nil, coqZ(tv.Value.ExactString()), rnInt
		case constant.Bool:
			return nil, strconv.FormatBool(constant.BoolVal(tv.Value)), rnBool
		}
	}
	switch x := e.(type) {
	case *ast.ParenExpr:
		return t.expr(x.X, env)
	case *ast.Ident:
		if k, ok := env[x.Name]; ok {
			return nil, "v_" + x.Name, k
		}
		switch x.Name {
		case "nil":
			return nil, "None", rnNil
		case "true", "false":
			return nil, x.Name, rnBool
		}
		rnDie("%s: identifier %s is not a local of the translated function", t.pos(e), x.Name)
	case *ast.SelectorExpr:
		if id, ok := x.X.(*ast.Ident); ok {
			if _, local := env[id.Name]; !local {
				pp := t.pkgPathOf(id)
				switch {
				case strings.HasSuffix(pp, "/cache/disk/casblob"):
					cp := load("cache/disk/casblob")
					v, ok := cp.constValue(x.Sel.Name)
					if !ok || v.Kind() != constant.Int {
						rnDie("%s: %s is not an integer constant of casblob", t.pos(e), t.p.nodeText(e))
					}
					if !t.cmpConst[x.Sel.Name] {
						t.cmpConst[x.Sel.Name] = true
						*t.cmpOrder = append(*t.cmpOrder, x.Sel.Name)
					}
					return nil, "ResNamesSrc_casblob_" + x.Sel.Name, rnCmp
				case strings.HasSuffix(pp, "grpc/codes"):
					return nil, "codes_" + x.Sel.Name, rnCode
				}
			}
		}
	case *ast.UnaryExpr:
		if x.Op == token.NOT {
			st, a, k := t.expr(x.X, env)
			if k != rnBool {
				rnDie("%s: ! applied to %s", t.pos(e), k)
			}
			return st, "(negb " + a + ")", rnBool
		}
	case *ast.BinaryExpr:
		return t.binary(x, env)
	case *ast.IndexExpr:
		sa, a, ka := t.expr(x.X, env)
		si, i, ki := t.expr(x.Index, env)
		if ka != rnStrs || ki != rnInt {
			rnDie("%s: index expression %s on %s with %s", t.pos(e), t.p.nodeText(e), ka, ki)
		}
		n := t.tmp()
		st := append(append([]string{}, sa...), si...)
		st = append(st, fmt.Sprintf("%s <- index %s %s %s", n, a, i, t.site(e)))
		return st, n, rnString
	case *ast.SliceExpr:
		sa, a, ka := t.expr(x.X, env)
		if ka == rnBytes && x.Low == nil && x.High == nil && x.Max == nil {
			return sa, a, rnBytes // b[:] of a byte slice/array
		}
		if ka != rnStrs || x.Low == nil || x.High != nil || x.Max != nil {
			rnDie("%s: unsupported slice expression %s", t.pos(e), t.p.nodeText(e))
		}
		si, i, ki := t.expr(x.Low, env)
		if ki != rnInt {
			rnDie("%s: slice bound of type %s", t.pos(e), ki)
		}
		n := t.tmp()
		st := append(append([]string{}, sa...), si...)
		st = append(st, fmt.Sprintf("%s <- slice_from %s %s %s", n, a, i, t.site(e)))
		return st, n, rnStrs
	case *ast.CallExpr:
		return t.call(x, env)
	}
	rnDie("%s: unsupported expression %s", t.pos(e), t.p.nodeText(e))
	return nil, "", rnNone
}

func rnSteps(steps []string, final string) string {
	return strings.Join(append(append([]string{}, steps...), final), ";; ")
}

func (t *rnTr) binary(x *ast.BinaryExpr, env rnEnv) ([]string, string, rnKind) {
	sa, a, ka := t.expr(x.X, env)
	sb, b, kb := t.expr(x.Y, env)
	switch x.Op {
	case token.LAND, token.LOR:
		if ka != rnBool || kb != rnBool {
			rnDie("%s: %s on %s and %s", t.pos(x), x.Op, ka, kb)
		}
		if len(sb) == 0 {
			op := "&&"
			if x.Op == token.LOR {
				op = "||"
			}
			return sa, fmt.Sprintf("(%s %s %s)", a, op, b), rnBool
		}
		// the right operand is evaluated (and can panic) only when the left one does not decide
		n := t.tmp()
		var step string
		if x.Op == token.LOR {
			step = fmt.Sprintf("%s <- (if %s then Ok true else (%s))", n, a, rnSteps(sb, "Ok "+b))
		} else {
			step = fmt.Sprintf("%s <- (if %s then (%s) else Ok false)", n, a, rnSteps(sb, "Ok "+b))
		}
		return append(append([]string{}, sa...), step), n, rnBool
	}
	st := append(append([]string{}, sa...), sb...)
	neg := func(s string) string { return "(negb " + s + ")" }
	intLike := func(k rnKind) bool { return k == rnInt || k == rnCmp || k == rnEKind }
	switch x.Op {
	case token.EQL, token.NEQ:
		var c string
		switch {
		case kb == rnNil && ka == rnErr:
			c = "(err_is_nil " + a + ")"
		case ka == rnNil && kb == rnErr:
			c = "(err_is_nil " + b + ")"
		case ka == rnString && kb == rnString:
			c = fmt.Sprintf("(String.eqb %s %s)", a, b)
		case intLike(ka) && ka == kb:
			c = fmt.Sprintf("(%s =? %s)", a, b)
		case ka == rnBool && kb == rnBool:
			c = fmt.Sprintf("(Bool.eqb %s %s)", a, b)
		default:
			rnDie("%s: comparison %s of %s with %s", t.pos(x), t.p.nodeText(x), ka, kb)
		}
		if x.Op == token.NEQ {
			c = neg(c)
		}
		return st, c, rnBool
	case token.LSS, token.LEQ, token.GTR, token.GEQ:
		if ka != rnInt || kb != rnInt {
			rnDie("%s: ordering %s of %s with %s", t.pos(x), t.p.nodeText(x), ka, kb)
		}
		op := map[token.Token]string{token.LSS: "<?", token.LEQ: "<=?", token.GTR: ">?", token.GEQ: ">=?"}[x.Op]
		return st, fmt.Sprintf("(%s %s %s)", a, op, b), rnBool
	case token.ADD, token.SUB:
		if ka == rnString && kb == rnString && x.Op == token.ADD {
			return st, fmt.Sprintf("(%s ++ %s)", a, b), rnString
		}
		if ka != rnInt || kb != rnInt {
			rnDie("%s: arithmetic %s on %s and %s", t.pos(x), t.p.nodeText(x), ka, kb)
		}
		// slice indices and lengths: below 2^63 in Go, no wrap-around is written
		return st, fmt.Sprintf("(%s %s %s)", a, x.Op, b), rnInt
	}
	rnDie("%s: unsupported operator in %s", t.pos(x), t.p.nodeText(x))
	return nil, "", rnNone
}

// is this call a logging call (dropped after its arguments are evaluated)?
func (t *rnTr) isLogCall(x *ast.CallExpr, env rnEnv) bool {
	se, ok := x.Fun.(*ast.SelectorExpr)
	if !ok || se.Sel.Name != "Printf" {
		return false
	}
	switch r := se.X.(type) {
	case *ast.Ident: // a parameter of an untranslated (logger) type
		return env[r.Name] == rnOpaque
	case *ast.SelectorExpr: // s.accessLogger / s.errorLogger
		id, ok := r.X.(*ast.Ident)
		return ok && t.recv != "" && id.Name == t.recv && (r.Sel.Name == "accessLogger" || r.Sel.Name == "errorLogger")
	}
	return false
}

func (t *rnTr) args(x *ast.CallExpr, env rnEnv) (steps, terms []string, kinds []rnKind) {
	if x.Ellipsis != token.NoPos {
		rnDie("%s: variadic call %s", t.pos(x), t.p.nodeText(x))
	}
	for _, a := range x.Args {
		s, v, k := t.expr(a, env)
		steps = append(steps, s...)
		terms = append(terms, v)
		kinds = append(kinds, k)
	}
	return
}

func (t *rnTr) constFormat(x *ast.CallExpr, i int) string {
	if i < len(x.Args) {
		if tv, ok := t.p.info.Types[x.Args[i]]; ok && tv.Value != nil && tv.Value.Kind() == constant.String {
			return constant.StringVal(tv.Value)
		}
	}
	rnDie("%s: the format of %s is not a constant", t.pos(x), t.p.nodeText(x))
	return ""
}

func (t *rnTr) call(x *ast.CallExpr, env rnEnv) ([]string, string, rnKind) {
	bad := func() { rnDie("%s: unsupported call %s", t.pos(x), t.p.nodeText(x)) }
	switch fun := x.Fun.(type) {
	case *ast.ArrayType: // []byte(s)
		if id, ok := fun.Elt.(*ast.Ident); ok && fun.Len == nil && id.Name == "byte" && len(x.Args) == 1 {
			st, a, k := t.args(x, env)
			if k[0] != rnString {
				bad()
			}
			return st, "(bytes_of " + a[0] + ")", rnBytes
		}
	case *ast.Ident:
		if _, shadowed := env[fun.Name]; shadowed {
			bad()
		}
		if fun.Name == "len" && len(x.Args) == 1 {
			st, a, k := t.args(x, env)
			switch k[0] {
			case rnStrs:
				return st, "(go_len " + a[0] + ")", rnInt
			case rnString:
				return st, "(go_strlen " + a[0] + ")", rnInt
			}
		}
	case *ast.SelectorExpr:
		id, ok := fun.X.(*ast.Ident)
		if !ok {
			bad()
		}
		if k, local := env[id.Name]; local {
			st, a, ks := t.args(x, env)
			switch {
			case k == rnEKind && fun.Sel.Name == "String" && len(a) == 0:
				return st, "(EntryKind_String v_" + id.Name + ")", rnString
			case k == rnHash && fun.Sel.Name == "Sum" && len(a) == 1 && ks[0] == rnNil:
				t.usesSha = true
				return st, "(sha256_Sum H v_" + id.Name + ")", rnBytes
			}
			bad()
		}
		if t.recv != "" && id.Name == t.recv {
			if fun.Sel.Name == "validateHash" && len(x.Args) == 3 {
				st, a, k := t.args(x, env)
				if k[0] != rnString || k[1] != rnInt || k[2] != rnString {
					bad()
				}
				n := t.tmp()
				st = append(st, fmt.Sprintf("%s <- grpcServer_validateHash %s", n, strings.Join(a, " ")))
				return st, n, rnErr
			}
			bad()
		}
		pp := t.pkgPathOf(id)
		switch {
		case pp == "strings" && fun.Sel.Name == "Split" && len(x.Args) == 2:
			st, a, k := t.args(x, env)
			if k[0] != rnString || k[1] != rnString {
				bad()
			}
			n := t.tmp()
			st = append(st, fmt.Sprintf("%s <- strings_Split %s %s", n, a[0], a[1]))
			return st, n, rnStrs
		case pp == "fmt" && fun.Sel.Name == "Sprintf" && len(x.Args) >= 1:
			f := t.constFormat(x, 0)
			st, _, _ := t.args(x, env)
			return st, "(fmt_Sprintf " + rnText(f) + ")", rnString
		case strings.HasSuffix(pp, "grpc/status") && fun.Sel.Name == "Error" && len(x.Args) == 2:
			st, a, k := t.args(x, env)
			if k[0] != rnCode || k[1] != rnString {
				bad()
			}
			return st, fmt.Sprintf("(status_Error %s %s)", a[0], a[1]), rnErr
		case strings.HasSuffix(pp, "grpc/status") && fun.Sel.Name == "Errorf" && len(x.Args) >= 2:
			f := t.constFormat(x, 1)
			st, a, k := t.args(x, env)
			if k[0] != rnCode {
				bad()
			}
			return st, fmt.Sprintf("(status_Errorf %s %s)", a[0], rnText(f)), rnErr
		case pp == "crypto/sha256" && fun.Sel.Name == "New" && len(x.Args) == 0:
			return nil, "sha256_New", rnHash
		case pp == "encoding/hex" && fun.Sel.Name == "EncodeToString" && len(x.Args) == 1:
			st, a, k := t.args(x, env)
			if k[0] != rnBytes {
				bad()
			}
			return st, "(hex_EncodeToString " + a[0] + ")", rnString
		}
	}
	bad()
	return nil, "", rnNone
}

func rnTuple(names []string) string {
	switch len(names) {
	case 0:
		return "tt"
	case 1:
		return "v_" + names[0]
	}
	var vs []string
	for _, n := range names {
		vs = append(vs, "v_"+n)
	}
	return "(" + strings.Join(vs, ", ") + ")"
}

func rnPattern(names []string) string {
	switch len(names) {
	case 0:
		return "_"
	case 1:
		return "v_" + names[0]
	}
	return "'" + rnTuple(names)
}

func (t *rnTr) assignedOuter(body *ast.BlockStmt, env rnEnv) []string {
	var outs []string
	seen := map[string]bool{}
	ast.Inspect(body, func(n ast.Node) bool {
		switch s := n.(type) {
		case *ast.AssignStmt:
			if s.Tok == token.DEFINE {
				return true
			}
			for _, l := range s.Lhs {
				if id, ok := l.(*ast.Ident); ok {
					if _, outer := env[id.Name]; outer && !seen[id.Name] {
						seen[id.Name] = true
						outs = append(outs, id.Name)
					}
				}
			}
		case *ast.IncDecStmt:
			rnDie("%s: unsupported statement %s", t.pos(s), t.p.nodeText(s))
		}
		return true
	})
	return outs
}

func rnEmit(steps []string, ind string) string {
	var b strings.Builder
	for _, s := range steps {
		b.WriteString(s + ";;\n" + ind)
	}
	return b.String()
}

func rnTerminates(ss []ast.Stmt) bool {
	if len(ss) == 0 {
		return false
	}
	switch s := ss[len(ss)-1].(type) {
	case *ast.ReturnStmt:
		return true
	case *ast.BranchStmt:
		return s.Tok == token.BREAK && s.Label == nil
	case *ast.IfStmt:
		if s.Else == nil {
			return false
		}
		eb, ok := s.Else.(*ast.BlockStmt)
		if !ok {
			return rnTerminates(s.Body.List) && rnTerminates([]ast.Stmt{s.Else})
		}
		return rnTerminates(s.Body.List) && rnTerminates(eb.List)
	}
	return false
}

func (t *rnTr) zero(k rnKind, at string) string {
	switch k {
	case rnString:
		return "\"\""
	case rnInt:
		return "0"
	case rnBool:
		return "false"
	case rnStrs:
		return "[]"
	case rnErr:
		return "None"
	}
	rnDie("%s: local of unsupported type %s", at, k)
	return ""
}

func (t *rnTr) stmts(ss []ast.Stmt, env rnEnv, cx rnCtx, ind string) string {
	if len(ss) == 0 {
		if cx.inLoop {
			return "Ok (Next " + rnTuple(cx.state) + ")"
		}
		rnDie("%s: control reaches the end of %s without a return", t.name, t.name)
	}
	s, rest := ss[0], ss[1:]
	next := func() string { return t.stmts(rest, env, cx, ind) }
	first := func() string { return strings.SplitN(t.p.nodeText(s), "\n", 2)[0] }
	switch x := s.(type) {
	case *ast.ReturnStmt:
		if cx.inLoop {
			rnDie("%s: return inside a loop", t.pos(s))
		}
		if len(x.Results) != len(t.results) {
			rnDie("%s: return with %d values", t.pos(s), len(x.Results))
		}
		var steps, vals []string
		for i, r := range x.Results {
			st, v, k := t.expr(r, env)
			want := t.results[i]
			if !(k == want || (k == rnNil && want == rnErr)) {
				rnDie("%s: result %d of %s is a %s, declared %s", t.pos(s), i+1, first(), k, want)
			}
			steps = append(steps, st...)
			vals = append(vals, v)
		}
		n := len(vals)
		if t.results[n-1] == rnErr {
			tup := vals[0]
			if n == 1 {
				tup = "tt"
			} else if n > 2 {
				tup = "(" + strings.Join(vals[:n-1], ", ") + ")"
			}
			return rnEmit(steps, ind) + fmt.Sprintf("go_return %s %s", tup, vals[n-1])
		}
		tup := vals[0]
		if n > 1 {
			tup = "(" + strings.Join(vals, ", ") + ")"
		}
		return rnEmit(steps, ind) + "Ok " + tup

	case *ast.BranchStmt:
		if x.Tok == token.BREAK && x.Label == nil && cx.inLoop {
			if len(rest) != 0 {
				rnDie("%s: statements after break", t.pos(s))
			}
			return "Ok (Break " + rnTuple(cx.state) + ")"
		}

	case *ast.ExprStmt:
		ce, ok := x.X.(*ast.CallExpr)
		if !ok {
			break
		}
		if t.isLogCall(ce, env) {
			steps, _, _ := t.args(ce, env)
			return rnEmit(steps, ind) + next()
		}
		// h.Write(bytes) on a hash being written
		if se, ok := ce.Fun.(*ast.SelectorExpr); ok && se.Sel.Name == "Write" && len(ce.Args) == 1 {
			if id, ok := se.X.(*ast.Ident); ok && env[id.Name] == rnHash {
				steps, a, k := t.args(ce, env)
				if k[0] != rnBytes {
					break
				}
				return rnEmit(steps, ind) + fmt.Sprintf("let v_%s := (sha256_Write v_%s %s) in\n%s%s", id.Name, id.Name, a[0], ind, next())
			}
		}

	case *ast.DeclStmt:
		gd, ok := x.Decl.(*ast.GenDecl)
		if !ok || gd.Tok != token.VAR {
			break
		}
		out := ""
		for _, sp := range gd.Specs {
			vs := sp.(*ast.ValueSpec)
			if len(vs.Values) != 0 || vs.Type == nil {
				rnDie("%s: unsupported declaration %s", t.pos(s), first())
			}
			k := t.typeKind(vs.Type)
			for _, id := range vs.Names {
				if _, dup := env[id.Name]; dup || id.Name == "_" {
					rnDie("%s: declaration of %s shadows another local", t.pos(s), id.Name)
				}
				z := t.zero(k, t.pos(s))
				env[id.Name] = k
				out += fmt.Sprintf("let v_%s : %s := %s in\n%s", id.Name, k.coq(t.pos(s)), z, ind)
			}
		}
		return out + next()

	case *ast.AssignStmt:
		if len(x.Rhs) != 1 {
			rnDie("%s: unsupported multi-assignment %s", t.pos(s), first())
		}
		var ids []string
		for _, l := range x.Lhs {
			id, ok := l.(*ast.Ident)
			if !ok {
				rnDie("%s: unsupported assignment target in %s", t.pos(s), first())
			}
			ids = append(ids, id.Name)
		}
		define := func(name string, k rnKind) {
			if name == "_" {
				return
			}
			switch x.Tok {
			case token.ASSIGN:
				old, ok := env[name]
				if !ok {
					rnDie("%s: assignment to %s, which is not a local", t.pos(s), name)
				}
				if !(old == k || (k == rnNil && old == rnErr)) {
					rnDie("%s: assignment of a %s to %s of type %s", t.pos(s), k, name, old)
				}
			case token.DEFINE:
				if _, dup := env[name]; dup {
					rnDie("%s: := of %s shadows another local", t.pos(s), name)
				}
				if k == rnNil || k == rnNone || k == rnOpaque || k == rnCode {
					rnDie("%s: local %s of unsupported type", t.pos(s), name)
				}
				env[name] = k
			default:
				rnDie("%s: unsupported assignment operator in %s", t.pos(s), first())
			}
		}
		bname := func(n string) string {
			if n == "_" {
				return "_"
			}
			return "v_" + n
		}
		if len(ids) == 2 {
			// v, err := strconv.ParseInt(a, base, bits)
			ce, ok := x.Rhs[0].(*ast.CallExpr)
			if ok {
				if se, ok := ce.Fun.(*ast.SelectorExpr); ok {
					if id, ok := se.X.(*ast.Ident); ok && t.pkgPathOf(id) == "strconv" && se.Sel.Name == "ParseInt" && len(ce.Args) == 3 {
						if _, local := env[id.Name]; !local {
							steps, a, k := t.args(ce, env)
							if k[0] != rnString || k[1] != rnInt || k[2] != rnInt {
								rnDie("%s: unsupported call %s", t.pos(s), first())
							}
							define(ids[0], rnInt)
							define(ids[1], rnErr)
							return rnEmit(steps, ind) + fmt.Sprintf("bind (strconv_ParseInt %s) (fun '(%s, %s) =>\n%s%s)",
								strings.Join(a, " "), bname(ids[0]), bname(ids[1]), ind, next())
						}
					}
				}
			}
			rnDie("%s: unsupported two-value assignment %s", t.pos(s), first())
		}
		if len(ids) != 1 {
			rnDie("%s: unsupported multi-assignment %s", t.pos(s), first())
		}
		steps, v, k := t.expr(x.Rhs[0], env)
		define(ids[0], k)
		if ids[0] == "_" {
			return rnEmit(steps, ind) + next()
		}
		if n := len(steps); n > 0 && strings.HasPrefix(steps[n-1], v+" <- ") {
			steps[n-1] = "v_" + ids[0] + strings.TrimPrefix(steps[n-1], v)
			return rnEmit(steps, ind) + next()
		}
		return rnEmit(steps, ind) + fmt.Sprintf("let v_%s := %s in\n%s%s", ids[0], v, ind, next())

	case *ast.IfStmt:
		if x.Init != nil {
			rnDie("%s: if with an init statement: %s", t.pos(s), first())
		}
		steps, c, k := t.expr(x.Cond, env)
		if k != rnBool {
			rnDie("%s: condition of type %s", t.pos(s), k)
		}
		thenS := append([]ast.Stmt{}, x.Body.List...)
		var elseS []ast.Stmt
		switch e := x.Else.(type) {
		case nil:
		case *ast.BlockStmt:
			elseS = append(elseS, e.List...)
		default:
			elseS = append(elseS, e)
		}
		if !rnTerminates(thenS) {
			thenS = append(thenS, rest...)
		}
		if !rnTerminates(elseS) {
			elseS = append(elseS, rest...)
		}
		in2 := ind + "  "
		return rnEmit(steps, ind) + fmt.Sprintf("if %s then\n%s%s\n%selse\n%s%s", c,
			in2, t.stmts(thenS, env.clone(), cx, in2), ind, in2, t.stmts(elseS, env.clone(), cx, in2))

	case *ast.RangeStmt:
		if cx.inLoop {
			rnDie("%s: nested loop", t.pos(s))
		}
		kid, ok := x.Key.(*ast.Ident)
		if x.Tok != token.DEFINE || !ok || kid.Name == "_" || x.Value != nil {
			rnDie("%s: only `for i := range x` loops are translated: %s", t.pos(s), first())
		}
		if _, dup := env[kid.Name]; dup {
			rnDie("%s: loop variable %s shadows another local", t.pos(s), kid.Name)
		}
		steps, l, lk := t.expr(x.X, env)
		if lk != rnStrs {
			rnDie("%s: range over a %s", t.pos(s), lk)
		}
		state := t.assignedOuter(x.Body, env)
		for _, n := range state {
			if n == kid.Name {
				rnDie("%s: the loop assigns its own index", t.pos(s))
			}
		}
		benv := env.clone()
		benv[kid.Name] = rnInt
		in2 := ind + "    "
		body := t.stmts(x.Body.List, benv, rnCtx{inLoop: true, state: state}, in2)
		return rnEmit(steps, ind) + fmt.Sprintf("bind (range_index %s (fun v_%s %s =>\n%s%s) %s) (fun %s =>\n%s%s)",
			l, kid.Name, rnPattern(state), in2, body, rnTuple(state), rnPattern(state), ind, t.stmts(rest, env, cx, ind))
	}
	rnDie("%s: unsupported statement %s", t.pos(s), first())
	return ""
}

func rnFindFunc(p *pkg, recv, name string) *ast.FuncDecl {
	for _, f := range p.files {
		for _, d := range f.Decls {
			fd, ok := d.(*ast.FuncDecl)
			if !ok || fd.Name.Name != name {
				continue
			}
			if recv == "" && fd.Recv == nil {
				return fd
			}
			if recv != "" && fd.Recv != nil && len(fd.Recv.List) == 1 {
				ty := fd.Recv.List[0].Type
				if st, ok := ty.(*ast.StarExpr); ok {
					ty = st.X
				}
				if id, ok := ty.(*ast.Ident); ok && id.Name == recv {
					return fd
				}
			}
		}
	}
	rnDie("function %s not found in %s", name, p.dir)
	return nil
}

func genResNames(out string) {
	const target = "ResNamesSrc.v"
	defer func() {
		if r := recover(); r != nil {
			msg, ok := r.(rnUnsupported)
			if !ok {
				panic(r)
			}
			fmt.Fprintf(os.Stderr, "go2coq: the resource-name/key functions are outside the translated subset: %s\n", string(msg))
			writeIfChanged(filepath.Join(out, target), []byte("(* GENERATED by tools/go2coq (gen_resnames.go).  The functions could not be translated. *)\nFrom BR Require Import Base.Prelude.\nOpen Scope string_scope.\nDefinition ResNamesSrc_untranslatable : string := "+coqString(valPrintable(strings.ReplaceAll(string(msg), repo+"/", "")))+".\n"))
		}
	}()
	var body bytes.Buffer
	cmpConst := map[string]bool{}
	var cmpOrder []string
	for _, fn := range rnFuncs {
		p := load(fn.dir)
		fd := rnFindFunc(p, fn.recv, fn.name)
		t := &rnTr{p: p, name: fn.name, cmpConst: cmpConst, cmpOrder: &cmpOrder}
		if fd.Body == nil || fd.Type.TypeParams != nil {
			rnDie("%s: %s is not a plain function", t.pos(fd), fn.name)
		}
		if fd.Recv != nil && len(fd.Recv.List[0].Names) == 1 {
			t.recv = fd.Recv.List[0].Names[0].Name
		}
		env := rnEnv{}
		var params []string
		for _, fl := range fd.Type.Params.List {
			k := t.typeKind(fl.Type)
			for _, n := range fl.Names {
				if n.Name == "_" {
					continue
				}
				if n.Name == t.recv {
					rnDie("%s: a parameter shadows the receiver", t.pos(fl))
				}
				env[n.Name] = k
				params = append(params, fmt.Sprintf("(v_%s : %s)", n.Name, k.coq(t.pos(fl))))
			}
		}
		if fd.Type.Results == nil {
			rnDie("%s: %s returns nothing", t.pos(fd), fn.name)
		}
		var resTy []string
		for _, fl := range fd.Type.Results.List {
			if len(fl.Names) != 0 {
				rnDie("%s: named results in %s", t.pos(fl), fn.name)
			}
			k := t.typeKind(fl.Type)
			if k == rnOpaque {
				rnDie("%s: result of unsupported type %s in %s", t.pos(fl), p.nodeText(fl.Type), fn.name)
			}
			t.results = append(t.results, k)
			if k != rnErr {
				resTy = append(resTy, k.coq(t.pos(fl)))
			}
		}
		for i, k := range t.results {
			if k == rnErr && i != len(t.results)-1 {
				rnDie("%s: an error result that is not the last one in %s", t.pos(fd), fn.name)
			}
		}
		rt := "unit"
		if len(resTy) > 0 {
			rt = strings.Join(resTy, " * ")
		}
		code := t.stmts(fd.Body.List, env, rnCtx{}, "  ")
		if t.usesSha {
			params = append([]string{"(H : string -> string)"}, params...)
		}
		fmt.Fprintf(&body, "(* %s: %s *)\nDefinition ResNamesSrc_%s %s : result (%s) :=\n  %s.\n\n",
			t.pos(fd), fn.name, fn.name, strings.Join(params, " "), rt, code)
	}
	var w bytes.Buffer
	w.WriteString("(* GENERATED by tools/go2coq (gen_resnames.go) from /repo/server/grpc_bytestream.go and /repo/cache/cache.go on every check run.  DO NOT EDIT.\n   Statement-level translation of parseReadResource, parseWriteResource, LookupKey, TransformActionCacheKey; run-time: Model/GoStrings.v. *)\n")
	w.WriteString("From BR Require Import Base.Prelude Model.GoStrings.\nOpen Scope string_scope.\nOpen Scope Z_scope.\n\n")
	cp := load("cache/disk/casblob")
	for _, n := range cmpOrder {
		v, _ := cp.constValue(n)
		fmt.Fprintf(&w, "(* casblob.%s *)\nDefinition ResNamesSrc_casblob_%s : Z := %s.\n\n", n, n, coqZ(v.ExactString()))
	}
	w.Write(body.Bytes())
	writeIfChanged(filepath.Join(out, target), w.Bytes())
}
