package main

// Gen/CasblobSrc.v: the control skeleton of cache/disk/casblob/casblob.go as literal text —
// every `if` condition (other than plain error checks) of readHeader, the two readers, the writer
// and ExtractLogicalSize in source order, the order in which readHeader reads and header.write
// writes the fields.  Bridge_Casblob pins these lists, so an edited, added, removed or reordered
// check breaks an obligation and sends the reader back to Model/Casblob.v.

import (
	"bytes"
	"fmt"
	"go/ast"
	"go/types"
	"path/filepath"
	"strings"
)

func init() { areas = append(areas, genCasblob) }

func casblobExprText(e ast.Expr) string {
	s := types.ExprString(e)
	return strings.Join(strings.Fields(s), " ")
}

// conditions of all if statements of fn, in source order, except those that only test err
func casblobIfConditions(fn *ast.FuncDecl) []string {
	var out []string
	ast.Inspect(fn.Body, func(n ast.Node) bool {
		if is, ok := n.(*ast.IfStmt); ok {
			t := casblobExprText(is.Cond)
			if t != "err != nil" && t != "err == nil" {
				out = append(out, t)
			}
		}
		return true
	})
	return out
}

// third argument of every binary.<fun>(f, binary.LittleEndian, X) call of fn, in source order
func casblobBinaryArgs(fn *ast.FuncDecl, fun string) []string {
	var out []string
	ast.Inspect(fn.Body, func(n ast.Node) bool {
		c, ok := n.(*ast.CallExpr)
		if !ok || len(c.Args) != 3 {
			return true
		}
		if casblobExprText(c.Fun) == "binary."+fun && casblobExprText(c.Args[1]) == "binary.LittleEndian" {
			out = append(out, casblobExprText(c.Args[2]))
		}
		return true
	})
	return out
}

// "lhs op rhs" of every assignment / definition of fn whose left-hand side is one of names
func casblobAssignments(fn *ast.FuncDecl, names ...string) []string {
	want := map[string]bool{}
	for _, n := range names {
		want[n] = true
	}
	var out []string
	ast.Inspect(fn.Body, func(n ast.Node) bool {
		a, ok := n.(*ast.AssignStmt)
		if !ok || len(a.Lhs) != 1 || len(a.Rhs) != 1 {
			return true
		}
		l := casblobExprText(a.Lhs[0])
		if want[l] {
			out = append(out, l+" "+a.Tok.String()+" "+casblobExprText(a.Rhs[0]))
		}
		return true
	})
	return out
}

func casblobEmitStrings(w *bytes.Buffer, name string, xs []string) {
	fmt.Fprintf(w, "Definition %s : list string := [\n", name)
	for i, x := range xs {
		sep := ";"
		if i == len(xs)-1 {
			sep = ""
		}
		fmt.Fprintf(w, "  %s%s\n", coqString(x), sep)
	}
	fmt.Fprintf(w, "].\n")
}

func genCasblob(out string) {
	p := load("cache/disk/casblob")
	var w bytes.Buffer
	w.WriteString(header)
	w.WriteString("(* cache/disk/casblob/casblob.go: control skeleton as literal text *)\n")
	casblobEmitStrings(&w, "readHeader_reads", casblobBinaryArgs(p.findFunc("", "readHeader"), "Read"))
	casblobEmitStrings(&w, "readHeader_checks", casblobIfConditions(p.findFunc("", "readHeader")))
	casblobEmitStrings(&w, "readHeader_exprs", casblobAssignments(p.findFunc("", "readHeader"), "foundFileSize", "expectedChunks", "metadataSize", "h.chunkOffsets", "prevOffset"))
	casblobEmitStrings(&w, "header_write_fields", casblobBinaryArgs(p.findFunc("header", "write"), "Write"))
	casblobEmitStrings(&w, "getUncompressed_checks", casblobIfConditions(p.findFunc("", "GetUncompressedReadCloser")))
	casblobEmitStrings(&w, "getUncompressed_exprs", casblobAssignments(p.findFunc("", "GetUncompressedReadCloser"), "chunkNum", "remainder", "compressedFirstChunk"))
	casblobEmitStrings(&w, "getZstd_checks", casblobIfConditions(p.findFunc("", "GetZstdReadCloser")))
	casblobEmitStrings(&w, "getZstd_exprs", casblobAssignments(p.findFunc("", "GetZstdReadCloser"), "chunkNum", "remainder", "compressedFirstChunk", "chunkToRecompress", "recompressedChunk"))
	casblobEmitStrings(&w, "writeAndClose_exprs", casblobAssignments(p.findFunc("", "WriteAndClose"), "chunkSize", "numChunks", "remainder", "numOffsets", "h.chunkOffsets[0]", "fileOffset", "chunkEnd", "remainingRawData", "h.chunkOffsets[nextChunk]", "uncompressedChunk"))
	casblobEmitStrings(&w, "writeAndClose_checks", casblobIfConditions(p.findFunc("", "WriteAndClose")))
	casblobEmitStrings(&w, "extractLogicalSize_exprs", casblobAssignments(p.findFunc("", "ExtractLogicalSize"), "interesting", "earlyHeader", "br"))
	casblobEmitStrings(&w, "extractLogicalSize_checks", casblobIfConditions(p.findFunc("", "ExtractLogicalSize")))
	writeIfChanged(filepath.Join(out, "CasblobSrc.v"), w.Bytes())
}
