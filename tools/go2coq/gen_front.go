package main

// Gen/Front.v: what the front-end adapter model (Model/Front.v; C01, C02, C18 per path) takes from
// the source: how main.go wires max_blob_size into the disk layer and both servers, what
// GetCapabilities advertises, maxChunkSize, the gRPCErrCode table, and — as source text in source
// order — the guards (if conditions) of every endpoint and the arguments of every call it makes
// into the disk cache (Put / Get / GetZstd / Contains).  Bridge_Front.v compares them with the
// texts the model was written against, so an edited guard or call breaks an obligation.

import (
	"bytes"
	"fmt"
	"go/ast"
	"go/printer"
	"go/token"
	"path/filepath"
	"strconv"
	"strings"
)

func init() { areas = append(areas, genFront) }

func frText(p *pkg, n ast.Node) string {
	var b bytes.Buffer
	if err := printer.Fprint(&b, p.fset, n); err != nil {
		die("front: cannot print a node of %s: %v", p.dir, err)
	}
	return strings.Join(strings.Fields(b.String()), " ")
}

func frList(xs []string) string {
	var ys []string
	for _, x := range xs {
		ys = append(ys, "  "+coqString(x))
	}
	return "[\n" + strings.Join(ys, ";\n") + "\n]"
}

func frPairs(xs [][2]string) string {
	var ys []string
	for _, x := range xs {
		ys = append(ys, "  ("+coqString(x[0])+", "+coqString(x[1])+")")
	}
	return "[\n" + strings.Join(ys, ";\n") + "\n]"
}

// "pkg.Fn" or "x.y.Fn" of a call
func frCallee(p *pkg, ce *ast.CallExpr) string { return frText(p, ce.Fun) }

// the calls whose callee text ends with one of the suffixes, inside root, in source order
func frCalls(p *pkg, root ast.Node, suffixes ...string) []*ast.CallExpr {
	var out []*ast.CallExpr
	ast.Inspect(root, func(n ast.Node) bool {
		if ce, ok := n.(*ast.CallExpr); ok {
			c := frCallee(p, ce)
			for _, s := range suffixes {
				if c == s || strings.HasSuffix(c, "."+s) {
					out = append(out, ce)
				}
			}
		}
		return true
	})
	return out
}

func frArgs(p *pkg, ce *ast.CallExpr, from int) string {
	var xs []string
	for i, a := range ce.Args {
		if i >= from {
			xs = append(xs, frText(p, a))
		}
	}
	return strings.Join(xs, ", ")
}

// flattened parameter names of a function
func frParams(fd *ast.FuncDecl) []string {
	var out []string
	for _, f := range fd.Type.Params.List {
		if len(f.Names) == 0 {
			out = append(out, "_")
		}
		for _, n := range f.Names {
			out = append(out, n.Name)
		}
	}
	return out
}

func frConds(p *pkg, root ast.Node) []string {
	var out []string
	ast.Inspect(root, func(n ast.Node) bool {
		if is, ok := n.(*ast.IfStmt); ok {
			out = append(out, frText(p, is.Cond))
		}
		return true
	})
	return out
}

// disk-cache calls of a function: "Put(args without ctx)" etc., in source order
func frCacheCalls(p *pkg, root ast.Node) []string {
	var out []string
	for _, ce := range frCalls(p, root, "cache.Put", "cache.Get", "cache.GetZstd", "cache.Contains", "cache.FindMissingCasBlobs", "cache.GetValidatedActionResult") {
		c := frCallee(p, ce)
		out = append(out, c[strings.LastIndex(c, ".")+1:]+"("+frArgs(p, ce, 1)+")")
	}
	return out
}

// the case of a switch on r.Method with the given label
func frMethodCase(p *pkg, fd *ast.FuncDecl, label string) *ast.CaseClause {
	var found *ast.CaseClause
	ast.Inspect(fd.Body, func(n ast.Node) bool {
		if cc, ok := n.(*ast.CaseClause); ok && found == nil {
			for _, e := range cc.List {
				if frText(p, e) == label {
					found = cc
				}
			}
		}
		return found == nil
	})
	if found == nil {
		die("front: no case %s in %s", label, fd.Name.Name)
	}
	return found
}

func genFront(out string) {
	mainp := load(".")
	server := load("server")

	var w bytes.Buffer
	w.WriteString(header)
	w.WriteString("(* main.go: where c.MaxBlobSize / c.MaxProxyBlobSize go *)\n")
	var wiring [][2]string
	one := func(suffix string, idx int, label string) {
		var hits []*ast.CallExpr
		for _, f := range mainp.files {
			hits = append(hits, frCalls(mainp, f, suffix)...)
		}
		if len(hits) != 1 {
			die("front: expected exactly one call of %s in main.go, found %d", suffix, len(hits))
		}
		if idx >= len(hits[0].Args) {
			die("front: %s has only %d arguments", suffix, len(hits[0].Args))
		}
		wiring = append(wiring, [2]string{label, frText(mainp, hits[0].Args[idx])})
	}
	one("disk.WithMaxBlobSize", 0, "disk.WithMaxBlobSize")
	one("disk.WithProxyMaxBlobSize", 0, "disk.WithProxyMaxBlobSize")
	httpNew := server.findFunc("", "NewHTTPCache")
	lsGRPC := server.findFunc("", "ListenAndServeGRPC")
	srvGRPC := server.findFunc("", "ServeGRPC")
	idxOf := func(fd *ast.FuncDecl, name string) int {
		for i, n := range frParams(fd) {
			if n == name {
				return i
			}
		}
		die("front: %s has no parameter %s", fd.Name.Name, name)
		return -1
	}
	hi, li, si := idxOf(httpNew, "maxCasBlobSizeBytes"), idxOf(lsGRPC, "maxCasBlobSizeBytes"), idxOf(srvGRPC, "maxCasBlobSizeBytes")
	one("server.NewHTTPCache", hi, fmt.Sprintf("server.NewHTTPCache#%d", hi))
	one("server.ListenAndServeGRPC", li, fmt.Sprintf("server.ListenAndServeGRPC#%d", li))
	// GetCapabilities
	caps := server.findFunc("grpcServer", "GetCapabilities")
	capsFields := map[string]string{}
	ast.Inspect(caps.Body, func(n ast.Node) bool {
		if kv, ok := n.(*ast.KeyValueExpr); ok {
			if id, ok := kv.Key.(*ast.Ident); ok {
				capsFields[id.Name] = frText(server, kv.Value)
			}
		}
		return true
	})
	if _, ok := capsFields["MaxCasBlobSizeBytes"]; !ok {
		die("front: GetCapabilities sets no MaxCasBlobSizeBytes")
	}
	wiring = append(wiring, [2]string{"GetCapabilities.MaxCasBlobSizeBytes", capsFields["MaxCasBlobSizeBytes"]})
	fmt.Fprintf(&w, "Definition front_wiring : list (string * string) := %s.\n\n", frPairs(wiring))

	w.WriteString("(* server: how the value travels from the constructor parameters to the fields the handlers read *)\n")
	var inner [][2]string
	// ListenAndServeGRPC -> ServeGRPC
	sc := frCalls(server, lsGRPC.Body, "ServeGRPC")
	if len(sc) != 1 || si >= len(sc[0].Args) {
		die("front: ListenAndServeGRPC does not call ServeGRPC once")
	}
	inner = append(inner, [2]string{fmt.Sprintf("ListenAndServeGRPC->ServeGRPC#%d", si), frText(server, sc[0].Args[si])})
	field := func(fd *ast.FuncDecl, label string) {
		v := ""
		ast.Inspect(fd.Body, func(n ast.Node) bool {
			if kv, ok := n.(*ast.KeyValueExpr); ok {
				if id, ok := kv.Key.(*ast.Ident); ok && id.Name == "maxCasBlobSizeBytes" {
					v = frText(server, kv.Value)
				}
			}
			return true
		})
		if v == "" {
			die("front: %s does not set maxCasBlobSizeBytes", fd.Name.Name)
		}
		inner = append(inner, [2]string{label, v})
	}
	field(srvGRPC, "ServeGRPC: grpcServer.maxCasBlobSizeBytes")
	field(httpNew, "NewHTTPCache: httpCache.maxCasBlobSizeBytes")
	fmt.Fprintf(&w, "Definition front_wiring_inner : list (string * string) := %s.\n\n", frPairs(inner))

	fmt.Fprintf(&w, "Definition front_caps_SupportedCompressors : string := %s.\n", coqString(capsFields["SupportedCompressors"]))
	fmt.Fprintf(&w, "Definition front_caps_SupportedBatchUpdateCompressors : string := %s.\n", coqString(capsFields["SupportedBatchUpdateCompressors"]))
	fmt.Fprintf(&w, "Definition front_caps_BlobSpliceSupport : string := %s.\n\n", coqString(capsFields["BlobSpliceSupport"]))

	server.emitConst(&w, "front_maxChunkSize", "maxChunkSize")

	// gRPCErrCode
	w.WriteString("\n(* gRPCErrCode: (condition / case, returned code) in source order *)\n")
	ge := server.findFunc("", "gRPCErrCode")
	var table [][2]string
	ast.Inspect(ge.Body, func(n ast.Node) bool {
		switch s := n.(type) {
		case *ast.IfStmt:
			if len(s.Body.List) == 1 {
				if rs, ok := s.Body.List[0].(*ast.ReturnStmt); ok && len(rs.Results) == 1 {
					table = append(table, [2]string{"if " + frText(server, s.Cond), frText(server, rs.Results[0])})
				}
			}
		case *ast.CaseClause:
			if len(s.List) == 1 && len(s.Body) == 1 {
				if rs, ok := s.Body[0].(*ast.ReturnStmt); ok && len(rs.Results) == 1 {
					table = append(table, [2]string{"case " + frText(server, s.List[0]), frText(server, rs.Results[0])})
				}
			}
		}
		return true
	})
	last := ge.Body.List[len(ge.Body.List)-1]
	if rs, ok := last.(*ast.ReturnStmt); ok && len(rs.Results) == 1 {
		table = append(table, [2]string{"otherwise", frText(server, rs.Results[0])})
	} else {
		die("front: gRPCErrCode does not end in a return")
	}
	fmt.Fprintf(&w, "Definition front_gRPCErrCode : list (string * string) := %s.\n", frPairs(table))

	// validateHash
	vh := server.findFunc("grpcServer", "validateHash")
	fmt.Fprintf(&w, "\nDefinition front_validateHash_conds : list string := %s.\n", frList(frConds(server, vh.Body)))

	// HTTP
	ch := server.findFunc("httpCache", "CacheHandler")
	put := frMethodCase(server, ch, "http.MethodPut")
	get := frMethodCase(server, ch, "http.MethodGet")
	head := frMethodCase(server, ch, "http.MethodHead")
	w.WriteString("\n(* HTTP: header names read/written by CacheHandler, the guards of the PUT branch, the disk calls *)\n")
	var headers []string
	seen := map[string]bool{}
	for _, ce := range frCalls(server, ch.Body, "Header.Get", "Header().Set") {
		if len(ce.Args) > 0 {
			if bl, ok := ce.Args[0].(*ast.BasicLit); ok && bl.Kind == token.STRING {
				s, _ := strconv.Unquote(bl.Value)
				if !seen[s] {
					seen[s] = true
					headers = append(headers, s)
				}
			}
		}
	}
	fmt.Fprintf(&w, "Definition front_http_headers : list string := %s.\n", frList(headers))
	condsOf := func(stmts []ast.Stmt) []string {
		var out []string
		for _, s := range stmts {
			out = append(out, frConds(server, s)...)
		}
		return out
	}
	callsOf := func(stmts []ast.Stmt) []string {
		var out []string
		for _, s := range stmts {
			out = append(out, frCacheCalls(server, s)...)
		}
		return out
	}
	fmt.Fprintf(&w, "Definition front_http_put_conds : list string := %s.\n", frList(condsOf(put.Body)))
	fmt.Fprintf(&w, "Definition front_http_put_calls : list string := %s.\n", frList(callsOf(put.Body)))
	fmt.Fprintf(&w, "Definition front_http_get_calls : list string := %s.\n", frList(callsOf(get.Body)))
	fmt.Fprintf(&w, "Definition front_http_head_calls : list string := %s.\n", frList(callsOf(head.Body)))

	// gRPC endpoints: guards and disk calls
	w.WriteString("\n(* gRPC endpoints: guards (if conditions) and disk-cache calls, in source order *)\n")
	for _, fn := range []struct{ coq, recv, name string }{
		{"BatchUpdateBlobs", "grpcServer", "BatchUpdateBlobs"},
		{"getBlobData", "grpcServer", "getBlobData"},
		{"getBlobResponse", "grpcServer", "getBlobResponse"},
		{"BatchReadBlobs", "grpcServer", "BatchReadBlobs"},
		{"GetTree", "grpcServer", "GetTree"},
		{"fillDirectories", "grpcServer", "fillDirectories"},
		{"SpliceBlob", "grpcServer", "SpliceBlob"},
		{"Read", "grpcServer", "Read"},
		{"Write", "grpcServer", "Write"},
		{"UpdateActionResult", "grpcServer", "UpdateActionResult"},
		{"maybeInline", "grpcServer", "maybeInline"},
		{"FetchBlob", "grpcServer", "FetchBlob"},
		{"fetchItem", "grpcServer", "fetchItem"},
		{"FindMissingBlobs", "grpcServer", "FindMissingBlobs"},
	} {
		fd := server.findFunc(fn.recv, fn.name)
		fmt.Fprintf(&w, "Definition front_%s_conds : list string := %s.\n", fn.coq, frList(frConds(server, fd.Body)))
		fmt.Fprintf(&w, "Definition front_%s_calls : list string := %s.\n", fn.coq, frList(frCacheCalls(server, fd.Body)))
	}
	// FindMissingBlobs: the whole handler (nothing may come between the request's digest list and the
	// disk layer's call: no de-duplication, no reordering)
	fmb := server.findFunc("grpcServer", "FindMissingBlobs")
	fmt.Fprintf(&w, "Definition front_FindMissingBlobs_src : string :=\n  %s.\n", coqString(frText(server, fmb.Body)))
	// the status codes BatchUpdateBlobs assigns per blob
	bu := server.findFunc("grpcServer", "BatchUpdateBlobs")
	var codes []string
	ast.Inspect(bu.Body, func(n ast.Node) bool {
		if as, ok := n.(*ast.AssignStmt); ok && len(as.Lhs) == 1 && frText(server, as.Lhs[0]) == "rr.Status.Code" {
			codes = append(codes, frText(server, as.Rhs[0]))
		}
		return true
	})
	fmt.Fprintf(&w, "Definition front_BatchUpdateBlobs_codes : list string := %s.\n", frList(codes))
	// the codes ByteStream.Read / Write / SpliceBlob return: status.Error(f) first arguments, in order
	for _, nm := range []string{"Read", "Write", "SpliceBlob", "GetTree"} {
		fd := server.findFunc("grpcServer", nm)
		var cs []string
		for _, ce := range frCalls(server, fd.Body, "status.Error", "status.Errorf", "grpc_status.Error", "grpc_status.Errorf") {
			if len(ce.Args) > 0 {
				cs = append(cs, frText(server, ce.Args[0]))
			}
		}
		fmt.Fprintf(&w, "Definition front_%s_codes : list string := %s.\n", nm, frList(cs))
	}
	writeIfChanged(filepath.Join(out, "Front.v"), w.Bytes())
}
