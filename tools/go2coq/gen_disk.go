package main

// Source pins for the disk cache core (C01, C03–C08, C10, C12, C17, C18): the statement text of the
// functions Model/LRU.v and Model/Disk.v were written against, with comments, logging and metrics
// statements removed and white space normalised.  Bridge/Bridge_Disk.v pins each string, so any edit
// to the control flow, the arithmetic or the order of operations of these functions breaks an
// obligation even when no sampled behaviour changes.

import (
	"bytes"
	"fmt"
	"go/ast"
	"path/filepath"
	"strings"
)

func init() { areas = append(areas, genDisk) }

func isNoiseStmt(s ast.Stmt) bool {
	es, ok := s.(*ast.ExprStmt)
	if !ok {
		return false
	}
	ce, ok := es.X.(*ast.CallExpr)
	if !ok {
		return false
	}
	se, ok := ce.Fun.(*ast.SelectorExpr)
	if !ok {
		return false
	}
	switch se.Sel.Name {
	case "Printf", "Println", "Print", "Observe", "Set", "Inc":
		return true
	case "Add":
		// prometheus counters: c.counterX.Add(...)
		if inner, ok := se.X.(*ast.SelectorExpr); ok && strings.HasPrefix(inner.Sel.Name, "counter") {
			return true
		}
	}
	return false
}

func stripNoise(b *ast.BlockStmt) {
	ast.Inspect(b, func(n ast.Node) bool {
		switch x := n.(type) {
		case *ast.BlockStmt:
			var keep []ast.Stmt
			for _, s := range x.List {
				if !isNoiseStmt(s) {
					keep = append(keep, s)
				}
			}
			x.List = keep
		case *ast.CaseClause:
			var keep []ast.Stmt
			for _, s := range x.Body {
				if !isNoiseStmt(s) {
					keep = append(keep, s)
				}
			}
			x.Body = keep
		}
		return true
	})
}

func (p *pkg) funcSource(recv, name string) string {
	fd := p.findFunc(recv, name)
	stripNoise(fd.Body)
	// print without comments
	fd.Doc = nil
	return p.nodeText(fd.Type) + " " + p.nodeText(fd.Body)
}

func genDisk(out string) {
	// fresh parses: the statements are edited (noise removed) before printing
	disk := loadPkg("cache/disk")
	tf := loadPkg("utils/tempfile")
	sv := loadPkg("utils/sha256verifier")
	var w bytes.Buffer
	w.WriteString(header)
	type item struct {
		p          *pkg
		recv, name string
	}
	items := []item{
		{disk, "SizedLRU", "Add"}, {disk, "SizedLRU", "Get"}, {disk, "SizedLRU", "RemoveKey"}, {disk, "SizedLRU", "RemoveElement"},
		{disk, "SizedLRU", "Reserve"}, {disk, "SizedLRU", "Unreserve"}, {disk, "SizedLRU", "removeElement"},
		{disk, "SizedLRU", "appendEvictionToQueue"}, {disk, "SizedLRU", "performQueuedEvictions"},
		{disk, "SizedLRU", "calcTotalDiskSizeAndUpdatePeak"},
		{disk, "diskCache", "Put"}, {disk, "diskCache", "writeAndCloseFile"}, {disk, "diskCache", "commit"},
		{disk, "diskCache", "availableOrTryProxy"}, {disk, "diskCache", "get"}, {disk, "diskCache", "Contains"},
		{disk, "diskCache", "GetValidatedActionResult"}, {disk, "diskCache", "getElementPath"},
		{disk, "diskCache", "FindMissingCasBlobs"}, {disk, "diskCache", "findMissingCasBlobsInternal"},
		{disk, "", "filterNonNil"}, {disk, "diskCache", "findMissingLocalCAS"}, {disk, "diskCache", "containsWorker"},
		{disk, "diskCache", "loadExistingFiles"},
		{tf, "Creator", "Create"}, {sv, "sha256verifier", "Write"}, {sv, "sha256verifier", "Close"},
	}
	var names []string
	for _, it := range items {
		n := "src_" + it.recv + "_" + it.name
		names = append(names, n)
		fmt.Fprintf(&w, "Definition %s : string := %s.\n", n, coqString(it.p.funcSource(it.recv, it.name)))
	}
	fmt.Fprintf(&w, "Definition disk_sources : list (string * string) := [%s].\n", func() string {
		var xs []string
		for _, n := range names {
			xs = append(xs, fmt.Sprintf("(%s, %s)", coqString(n), n))
		}
		return strings.Join(xs, "; ")
	}())
	writeIfChanged(filepath.Join(out, "DiskSrc.v"), w.Bytes())

	// the casblob reader/writer functions in full (statement ORDER matters there: the chunk table is
	// finalised only after the data is written, the trailing data ruled out and the hash verified)
	cb := loadPkg("cache/disk/casblob")
	var w2 bytes.Buffer
	w2.WriteString(header)
	for _, it := range []item{{cb, "", "readHeader"}, {cb, "", "ExtractLogicalSize"}, {cb, "", "GetUncompressedReadCloser"},
		{cb, "", "GetZstdReadCloser"}, {cb, "", "GetLegacyZstdReadCloser"}, {cb, "header", "write"}, {cb, "", "WriteAndClose"}} {
		fmt.Fprintf(&w2, "Definition src_casblob_%s%s : string := %s.\n", it.recv, it.name, coqString(it.p.funcSource(it.recv, it.name)))
	}
	writeIfChanged(filepath.Join(out, "CasblobText.v"), w2.Bytes())
}
