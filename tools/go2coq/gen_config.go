package main

// gen_config.go — C19 (configuration).  Writes coq/Gen/Config.v, everything inside `Module GC`:
//   * the configuration structs of package config as Coq records (projection <Struct>_<Field>),
//     with their yaml tags as the table yaml_fields, a flattening function per struct, setters
//     for the fields the translated code assigns, and a tag-driven model of yaml.Unmarshal;
//   * cli_flags: every flag of flags.GetCliFlags (name, kind, default value, environment variables);
//   * flag_wiring / derived_wiring / section_triggers: which ctx.<Type>("flag") feeds which Config
//     field through get -> newFromArgs;
//   * statement-by-statement translations of URLBackendConfig.validate, validateConfig,
//     newFromArgs, get and NewFromYaml into Gallina (external library functions are the fields of
//     the record Ext), with error_messages: the literal text of every error return;
//   * the auth-method lists of s3proxy / azblobproxy and the text of URLBackendConfig.UnmarshalYAML.
// Anything outside the handled Go subset stops the translator.

import (
	"bytes"
	"fmt"
	"go/ast"
	"go/constant"
	"go/token"
	"os"
	"path/filepath"
	"reflect"
	"sort"
	"strconv"
	"strings"
)

func init() { areas = append(areas, genConfig) }

// ---------------------------------------------------------------------------------------------
// types: "string" "int" "bool" "dur" "floats" "pint" "purl" "S:<Struct>" "P:<Struct>"
// plus the translator-internal "URL" "list" "nil" "data" "ctx"

type cfField struct {
	goName string
	ty     string
	yaml   string
	inline bool
}

type cfStruct struct {
	name   string
	fields []cfField
}

type cfErr struct {
	code int
	fn   string
	msg  string
	pos  token.Pos
	tag  string
}

type cfGen struct {
	p         *pkg
	structs   map[string]*cfStruct
	order     []string
	setters   map[string]bool
	setOrd    []string
	errs      []cfErr
	undecoded []string
}

func (g *cfGen) pos(n ast.Node) string { return g.p.fset.Position(n.Pos()).String() }

func (g *cfGen) typeSpec(name string) *ast.StructType {
	for _, f := range g.p.files {
		for _, d := range f.Decls {
			gd, ok := d.(*ast.GenDecl)
			if !ok || gd.Tok != token.TYPE {
				continue
			}
			for _, sp := range gd.Specs {
				ts := sp.(*ast.TypeSpec)
				if ts.Name.Name == name {
					if st, ok := ts.Type.(*ast.StructType); ok {
						return st
					}
				}
			}
		}
	}
	return nil
}

func (g *cfGen) goType(e ast.Expr) string {
	switch x := e.(type) {
	case *ast.Ident:
		switch x.Name {
		case "string":
			return "string"
		case "int", "int64":
			return "int"
		case "bool":
			return "bool"
		}
		if g.typeSpec(x.Name) != nil {
			g.addStruct(x.Name)
			return "S:" + x.Name
		}
	case *ast.SelectorExpr:
		if id, ok := x.X.(*ast.Ident); ok && id.Name == "time" && x.Sel.Name == "Duration" {
			return "dur"
		}
	case *ast.ArrayType:
		if id, ok := x.Elt.(*ast.Ident); ok && x.Len == nil {
			if id.Name == "float64" {
				return "floats"
			}
			if id.Name == "byte" {
				return "data"
			}
		}
	case *ast.StarExpr:
		switch y := x.X.(type) {
		case *ast.Ident:
			if y.Name == "int" {
				return "pint"
			}
			if g.typeSpec(y.Name) != nil {
				g.addStruct(y.Name)
				return "P:" + y.Name
			}
		case *ast.SelectorExpr:
			if id, ok := y.X.(*ast.Ident); ok {
				if id.Name == "url" && y.Sel.Name == "URL" {
					return "purl"
				}
				if id.Name == "cli" && y.Sel.Name == "Context" {
					return "ctx"
				}
			}
		}
	}
	return ""
}

func (g *cfGen) addStruct(name string) {
	if _, ok := g.structs[name]; ok {
		return
	}
	st := g.typeSpec(name)
	if st == nil {
		die("config: struct %s not found", name)
	}
	s := &cfStruct{name: name}
	g.structs[name] = s // before the fields: no recursion expected, but be safe
	for _, f := range st.Fields.List {
		tag := ""
		if f.Tag != nil {
			t, _ := strconv.Unquote(f.Tag.Value)
			tag = reflect.StructTag(t).Get("yaml")
		}
		parts := strings.Split(tag, ",")
		yname := parts[0]
		inline := false
		for _, o := range parts[1:] {
			if o == "inline" {
				inline = true
			}
		}
		ty := g.goType(f.Type)
		if len(f.Names) == 0 { // embedded
			id, ok := f.Type.(*ast.Ident)
			if !ok || !inline || !strings.HasPrefix(ty, "S:") {
				die("config: %s: unsupported embedded field", g.pos(f))
			}
			s.fields = append(s.fields, cfField{goName: id.Name, ty: ty, inline: true})
			continue
		}
		for _, n := range f.Names {
			if ty == "" {
				if tag != "" {
					die("config: %s: field %s.%s has a yaml tag but an unsupported type", g.pos(f), name, n.Name)
				}
				continue // derived, non-basic field (ProxyBackend, TLSConfig, loggers)
			}
			if yname == "" {
				die("config: %s: basic field %s.%s has no yaml key", g.pos(f), name, n.Name)
			}
			s.fields = append(s.fields, cfField{goName: n.Name, ty: ty, yaml: yname})
		}
	}
	g.order = append(g.order, name)
}

func cfCoqTy(t string) string {
	switch t {
	case "string":
		return "string"
	case "int", "dur":
		return "Z"
	case "bool":
		return "bool"
	case "floats":
		return "option (list Z)"
	case "pint":
		return "option Z"
	case "purl":
		return "option URL"
	case "URL":
		return "URL"
	case "list":
		return "list Z"
	case "data":
		return "YamlData"
	case "ctx":
		return "Ctx"
	}
	if strings.HasPrefix(t, "S:") {
		return t[2:]
	}
	if strings.HasPrefix(t, "P:") {
		return "option " + t[2:]
	}
	die("config: no Coq type for %q", t)
	return ""
}

func (g *cfGen) zero(t string) string {
	switch t {
	case "string":
		return "\"\""
	case "int", "dur":
		return "0"
	case "bool":
		return "false"
	case "floats", "pint", "purl":
		return "None"
	}
	if strings.HasPrefix(t, "P:") {
		return "None"
	}
	if strings.HasPrefix(t, "S:") {
		return "zero_" + t[2:]
	}
	die("config: no zero value for %q", t)
	return ""
}

func cfKind(t string) string {
	switch t {
	case "string":
		return "KString"
	case "int":
		return "KInt"
	case "bool":
		return "KBool"
	case "dur":
		return "KDuration"
	case "floats":
		return "KFloatList"
	case "pint":
		return "KIntPtr"
	case "purl":
		return "KURL"
	}
	die("config: no kind for %q", t)
	return ""
}

func (g *cfGen) field(sname, fname string) *cfField {
	s := g.structs[sname]
	if s == nil {
		die("config: unknown struct %s", sname)
	}
	for i := range s.fields {
		if s.fields[i].goName == fname {
			return &s.fields[i]
		}
	}
	return nil
}

func (g *cfGen) needSetter(sname, fname string) string {
	k := sname + "." + fname
	if !g.setters[k] {
		g.setters[k] = true
		g.setOrd = append(g.setOrd, k)
	}
	return "set_" + sname + "_" + fname
}

// constant value of an expression: go/types when it could fold it, else a few literal shapes
func (g *cfGen) constOf(e ast.Expr) constant.Value {
	if tv, ok := g.p.info.Types[e]; ok && tv.Value != nil {
		return tv.Value
	}
	switch x := e.(type) {
	case *ast.ParenExpr:
		return g.constOf(x.X)
	case *ast.BasicLit:
		return constant.MakeFromLiteral(x.Value, x.Kind, 0)
	case *ast.UnaryExpr:
		if x.Op == token.SUB {
			if v := g.constOf(x.X); v != nil {
				return constant.UnaryOp(token.SUB, v, 0)
			}
		}
	case *ast.Ident:
		if x.Name == "true" || x.Name == "false" {
			return constant.MakeBool(x.Name == "true")
		}
		if v, ok := g.p.constValue(x.Name); ok {
			return v
		}
	case *ast.SelectorExpr:
		if id, ok := x.X.(*ast.Ident); ok && id.Name == "math" && x.Sel.Name == "MaxInt64" {
			return constant.MakeInt64(1<<63 - 1)
		}
	case *ast.BinaryExpr:
		a, b := g.constOf(x.X), g.constOf(x.Y)
		if a != nil && b != nil && x.Op == token.ADD {
			return constant.BinaryOp(a, token.ADD, b)
		}
	}
	return nil
}

// float constant as an integer number of thousandths
func cfMilli(v constant.Value, what string) string {
	m := constant.ToInt(constant.BinaryOp(v, token.MUL, constant.MakeInt64(1000)))
	if m.Kind() != constant.Int {
		die("config: %s is not a whole number of thousandths", what)
	}
	return coqZ(m.ExactString())
}

// ---------------------------------------------------------------------------------------------
// records, zero values, flatten, yaml table, tag-driven unmarshal

func (g *cfGen) emitRecords(w *bytes.Buffer) {
	w.WriteString("(* *url.URL as far as the configuration code looks at it *)\nRecord URL := mkURL { URL_Scheme : string; URL_text : string }.\n\n")
	for _, n := range g.order {
		s := g.structs[n]
		fmt.Fprintf(w, "Record %s := mk%s {\n", n, n)
		for i, f := range s.fields {
			sep := ";"
			if i == len(s.fields)-1 {
				sep = " }."
			}
			tag := f.yaml
			if f.inline {
				tag = ",inline"
			}
			fmt.Fprintf(w, "  %s_%s : %s%s  (* yaml:%q *)\n", n, f.goName, cfCoqTy(f.ty), sep, tag)
		}
		fmt.Fprintf(w, "Definition zero_%s : %s := {|\n", n, n)
		for i, f := range s.fields {
			sep := ";"
			if i == len(s.fields)-1 {
				sep = " |}."
			}
			fmt.Fprintf(w, "  %s_%s := %s%s\n", n, f.goName, g.zero(f.ty), sep)
		}
		w.WriteString("\n")
	}
}

func (g *cfGen) emitSetters(w *bytes.Buffer) {
	w.WriteString("(* setters for the fields the translated code assigns *)\n")
	for _, k := range g.setOrd {
		kv := strings.SplitN(k, ".", 2)
		s := g.structs[kv[0]]
		ft := g.field(kv[0], kv[1]).ty
		fmt.Fprintf(w, "Definition set_%s_%s (x : %s) (r : %s) : %s := {|\n", kv[0], kv[1], cfCoqTy(ft), kv[0], kv[0])
		for i, f := range s.fields {
			sep := ";"
			if i == len(s.fields)-1 {
				sep = " |}."
			}
			v := fmt.Sprintf("%s_%s r", kv[0], f.goName)
			if f.goName == kv[1] {
				v = "x"
			}
			fmt.Fprintf(w, "  %s_%s := %s%s\n", kv[0], f.goName, v, sep)
		}
	}
	w.WriteString("\n")
}

func (g *cfGen) emitFlatten(w *bytes.Buffer) {
	w.WriteString("(* every basic field, by Go field path; nil pointers / slices contribute nothing, a non-nil\n   struct pointer contributes a presence marker followed by its fields *)\n")
	for _, n := range g.order {
		s := g.structs[n]
		fmt.Fprintf(w, "Definition flatten_%s (pre : string) (c : %s) : list (string * value) :=\n", n, n)
		var parts []string
		for _, f := range s.fields {
			acc := fmt.Sprintf("%s_%s c", n, f.goName)
			key := fmt.Sprintf("(pre ++ %s)", coqString(f.goName))
			switch {
			case f.inline:
				parts = append(parts, fmt.Sprintf("flatten_%s pre (%s)", f.ty[2:], acc))
			case f.ty == "string":
				parts = append(parts, fmt.Sprintf("[(%s, VS (%s))]", key, acc))
			case f.ty == "int":
				parts = append(parts, fmt.Sprintf("[(%s, VI (%s))]", key, acc))
			case f.ty == "bool":
				parts = append(parts, fmt.Sprintf("[(%s, VB (%s))]", key, acc))
			case f.ty == "dur":
				parts = append(parts, fmt.Sprintf("[(%s, VD (%s))]", key, acc))
			case f.ty == "floats":
				parts = append(parts, fmt.Sprintf("match %s with Some l => [(%s, VL l)] | None => [] end", acc, key))
			case f.ty == "pint":
				parts = append(parts, fmt.Sprintf("match %s with Some z => [(%s, VI z)] | None => [] end", acc, key))
			case f.ty == "purl":
				parts = append(parts, fmt.Sprintf("match %s with Some u => [(%s, VS (URL_text u))] | None => [] end", acc, key))
			case strings.HasPrefix(f.ty, "P:"):
				parts = append(parts, fmt.Sprintf("match %s with Some x => (%s, VB true) :: flatten_%s (pre ++ %s) x | None => [] end", acc, key, f.ty[2:], coqString(f.goName+".")))
			default:
				die("config: flatten: field %s.%s", n, f.goName)
			}
		}
		fmt.Fprintf(w, "  %s.\n", strings.Join(parts, "\n  ++ "))
	}
	w.WriteString("\n")
}

type cfLeaf struct {
	fpath, ypath, ty string
}

func (g *cfGen) leaves(sname, fpre, ypre string) []cfLeaf {
	var out []cfLeaf
	for _, f := range g.structs[sname].fields {
		switch {
		case f.inline:
			out = append(out, g.leaves(f.ty[2:], fpre, ypre)...)
		case strings.HasPrefix(f.ty, "P:"):
			out = append(out, g.leaves(f.ty[2:], fpre+f.goName+".", ypre+f.yaml+".")...)
		case strings.HasPrefix(f.ty, "S:"):
			die("config: nested non-inline struct %s.%s", sname, f.goName)
		default:
			out = append(out, cfLeaf{fpre + f.goName, ypre + f.yaml, f.ty})
		}
	}
	return out
}

func (g *cfGen) emitYamlTable(w *bytes.Buffer) {
	w.WriteString("(* every basic field reachable from YamlConfig: (Go field path, yaml key path, kind) *)\n")
	w.WriteString("Definition yaml_fields : list (string * string * kind) := [\n")
	ls := g.leaves("YamlConfig", "", "")
	for i, l := range ls {
		sep := ";"
		if i == len(ls)-1 {
			sep = ""
		}
		fmt.Fprintf(w, "  (%s, %s, %s)%s\n", coqString(l.fpath), coqString(l.ypath), cfKind(l.ty), sep)
	}
	w.WriteString("].\n\n")
	w.WriteString("(* the sections (pointer-to-struct fields): (Go field, yaml key) *)\nDefinition yaml_sections : list (string * string) := [")
	var secs []string
	for _, f := range g.structs["Config"].fields {
		if strings.HasPrefix(f.ty, "P:") {
			secs = append(secs, fmt.Sprintf("(%s, %s)", coqString(f.goName), coqString(f.yaml)))
		}
	}
	w.WriteString(strings.Join(secs, "; ") + "].\n\n")
}

// A struct with its own UnmarshalYAML (URLBackendConfig): the method decodes into an anonymous
// struct and copies from it.  A field of the struct is decoded from its yaml key iff
//   - the anonymous struct has a field with that very tag which the method copies into it
//     (recv.F = aux.G), or parses into it (u, err := url.Parse(aux.G); recv.F = u), or
//   - the anonymous struct embeds the struct's own type WITH `yaml:",inline"` (yaml.v3 does not
//     read the keys of an embedded struct otherwise).
//
// Returns nil when the struct has no such method, else the set of decoded fields.
func (g *cfGen) customDecoded(sname string) map[string]bool {
	var fd *ast.FuncDecl
	for _, f := range g.p.files {
		for _, d := range f.Decls {
			x, ok := d.(*ast.FuncDecl)
			if !ok || x.Name.Name != "UnmarshalYAML" || x.Recv == nil || len(x.Recv.List) != 1 {
				continue
			}
			t := x.Recv.List[0].Type
			if st, ok := t.(*ast.StarExpr); ok {
				t = st.X
			}
			if id, ok := t.(*ast.Ident); ok && id.Name == sname {
				fd = x
			}
		}
	}
	if fd == nil {
		return nil
	}
	recv := fd.Recv.List[0].Names[0].Name
	alias := ""
	auxVar := ""
	var lit *ast.StructType
	copies := map[string]string{} // receiver field -> aux field it is copied from
	parsed := map[string]string{} // local variable -> aux field it is url.Parse'd from
	ast.Inspect(fd.Body, func(n ast.Node) bool {
		switch x := n.(type) {
		case *ast.TypeSpec:
			if id, ok := x.Type.(*ast.Ident); ok && id.Name == sname {
				alias = x.Name.Name
			}
		case *ast.AssignStmt:
			if len(x.Rhs) != 1 {
				return true
			}
			rhs := x.Rhs[0]
			if ue, ok := rhs.(*ast.UnaryExpr); ok && ue.Op == token.AND {
				rhs = ue.X
			}
			if cl, ok := rhs.(*ast.CompositeLit); ok {
				if st, ok := cl.Type.(*ast.StructType); ok {
					if lit != nil {
						die("config: %s.UnmarshalYAML decodes into more than one anonymous struct", sname)
					}
					lit, auxVar = st, cfPath(x.Lhs[0])
				}
				return true
			}
			if ce, ok := rhs.(*ast.CallExpr); ok && cfCallee(ce) == "url.Parse" && len(ce.Args) == 1 && len(x.Lhs) == 2 {
				if se, ok := ce.Args[0].(*ast.SelectorExpr); ok && cfPath(se.X) == auxVar {
					parsed[cfPath(x.Lhs[0])] = se.Sel.Name
				}
				return true
			}
			if l, ok := x.Lhs[0].(*ast.SelectorExpr); ok && len(x.Lhs) == 1 && cfPath(l.X) == recv {
				switch r := rhs.(type) {
				case *ast.SelectorExpr:
					if cfPath(r.X) == auxVar {
						copies[l.Sel.Name] = r.Sel.Name
						return true
					}
				case *ast.Ident:
					if af, ok := parsed[r.Name]; ok {
						copies[l.Sel.Name] = af
						return true
					}
				}
				die("config: %s: %s.UnmarshalYAML assigns %s from something other than the decoded struct", g.pos(x), sname, l.Sel.Name)
			}
		}
		return true
	})
	if lit == nil || auxVar == "" {
		die("config: %s.UnmarshalYAML does not have the expected shape", sname)
	}
	auxTag := map[string]string{}
	inlined := false
	for _, f := range lit.Fields.List {
		tag := ""
		if f.Tag != nil {
			t, _ := strconv.Unquote(f.Tag.Value)
			tag = reflect.StructTag(t).Get("yaml")
		}
		if len(f.Names) == 0 {
			st, ok := f.Type.(*ast.StarExpr)
			if !ok || alias == "" || cfPath(st.X) != alias {
				die("config: %s.UnmarshalYAML: unexpected embedded field", sname)
			}
			inlined = strings.HasSuffix(tag, ",inline")
			continue
		}
		for _, n := range f.Names {
			auxTag[n.Name] = strings.Split(tag, ",")[0]
		}
	}
	out := map[string]bool{}
	for _, sf := range g.structs[sname].fields {
		if af, ok := copies[sf.goName]; ok {
			if auxTag[af] != sf.yaml {
				die("config: %s.UnmarshalYAML fills %s from the key %q, its own tag says %q", sname, sf.goName, auxTag[af], sf.yaml)
			}
			out[sf.goName] = true
		} else if inlined {
			out[sf.goName] = true
		}
	}
	return out
}

// the expression that rebuilds struct sname from the yaml data y on top of the default value dflt
func (g *cfGen) unmarshalExpr(sname, ypre, dflt string, urls *[]string, ind string) string {
	var parts []string
	decoded := g.customDecoded(sname)
	for _, f := range g.structs[sname].fields {
		acc := fmt.Sprintf("(%s_%s %s)", sname, f.goName, dflt)
		key := coqString(ypre + f.yaml)
		var v string
		switch {
		case decoded != nil && !decoded[f.goName]:
			v = acc + " (* not decoded by " + sname + ".UnmarshalYAML *)"
			g.undecoded = append(g.undecoded, ypre+f.yaml)
		case f.inline:
			v = g.unmarshalExpr(f.ty[2:], ypre, acc, urls, ind+"  ")
		case f.ty == "string":
			v = fmt.Sprintf("yS y %s %s", key, acc)
		case f.ty == "int":
			v = fmt.Sprintf("yI y %s %s", key, acc)
		case f.ty == "bool":
			v = fmt.Sprintf("yB y %s %s", key, acc)
		case f.ty == "dur":
			v = fmt.Sprintf("yD y %s %s", key, acc)
		case f.ty == "floats":
			v = fmt.Sprintf("yL y %s %s", key, acc)
		case f.ty == "pint":
			v = fmt.Sprintf("yP y %s %s", key, acc)
		case f.ty == "purl":
			u := fmt.Sprintf("u%d", len(*urls))
			*urls = append(*urls, ypre+f.yaml)
			v = "Some " + u
		case strings.HasPrefix(f.ty, "P:"):
			sub := f.ty[2:]
			var keys []string
			for _, l := range g.leaves(sub, "", ypre+f.yaml+".") {
				keys = append(keys, coqString(l.ypath))
			}
			base := fmt.Sprintf("(match %s_%s %s with Some d => d | None => zero_%s end)", sname, f.goName, dflt, sub)
			v = fmt.Sprintf("if yaml_present y [%s]\n%s    then Some (%s)\n%s    else %s", strings.Join(keys, "; "), ind, g.unmarshalExpr(sub, ypre+f.yaml+".", base, urls, ind+"    "), ind, acc)
		default:
			die("config: unmarshal: field %s.%s", sname, f.goName)
		}
		parts = append(parts, fmt.Sprintf("%s  %s_%s := %s", ind, sname, f.goName, v))
	}
	return "{|\n" + strings.Join(parts, ";\n") + " |}"
}

func (g *cfGen) emitUnmarshal(w *bytes.Buffer) {
	w.WriteString(`(* yaml.Unmarshal as far as the struct tags determine it: a key that is present overrides the
   value already in the struct, an absent key leaves it; a section is allocated when one of its
   keys is present; a value of the wrong kind is an error (yaml_types_ok).  URL-typed fields go
   through URLBackendConfig.UnmarshalYAML (text pinned below): url.Parse of the "url" string. *)
Definition YamlData := string -> option value.
Definition yS (y : YamlData) k (d : string) := match y k with Some (VS s) => s | _ => d end.
Definition yI (y : YamlData) k (d : Z) := match y k with Some (VI z) => z | _ => d end.
Definition yB (y : YamlData) k (d : bool) := match y k with Some (VB b) => b | _ => d end.
Definition yD (y : YamlData) k (d : Z) := match y k with Some (VD z) => z | _ => d end.
Definition yL (y : YamlData) k (d : option (list Z)) := match y k with Some (VL l) => Some l | _ => d end.
Definition yP (y : YamlData) k (d : option Z) := match y k with Some (VI z) => Some z | _ => d end.
Definition yaml_present (y : YamlData) (ks : list string) : bool :=
  existsb (fun k => match y k with Some _ => true | None => false end) ks.
Definition kind_accepts (k : kind) (v : value) : bool :=
  match k, v with
  | KString, VS _ | KURL, VS _ | KInt, VI _ | KInt64, VI _ | KIntPtr, VI _ | KBool, VB _
  | KDuration, VD _ | KFloatList, VL _ => true
  | _, _ => false
  end.
Definition yaml_types_ok (y : YamlData) : bool :=
  forallb (fun r => match y (snd (fst r)) with Some v => kind_accepts (snd r) v | None => true end) yaml_fields.

`)
	var urls []string
	body := g.unmarshalExpr("YamlConfig", "", "d", &urls, "  ")
	w.WriteString("Definition yaml_Unmarshal_by_tags (url_parse : string -> option URL) (y : YamlData) (d : YamlConfig) : option YamlConfig :=\n")
	w.WriteString("  if negb (yaml_types_ok y) then None else\n")
	for i, u := range urls {
		sec := u[:strings.LastIndex(u, ".")]
		var keys []string
		for _, l := range g.leaves("YamlConfig", "", "") {
			if strings.HasPrefix(l.ypath, sec+".") {
				keys = append(keys, coqString(l.ypath))
			}
		}
		fmt.Fprintf(w, "  match (if yaml_present y [%s] then url_parse (yS y %s \"\") else Some (mkURL \"\" \"\")) with None => None | Some u%d =>\n", strings.Join(keys, "; "), coqString(u), i)
	}
	w.WriteString("  Some " + body + "\n")
	w.WriteString("  " + strings.Repeat("end ", len(urls)) + ".\n\n")
	var ud []string
	for _, u := range g.undecoded {
		ud = append(ud, coqString(u))
	}
	fmt.Fprintf(w, "(* yaml keys of tagged fields that a custom UnmarshalYAML never reads *)\nDefinition yaml_undecoded : list string := [%s].\n\n", strings.Join(ud, "; "))
}

// ---------------------------------------------------------------------------------------------
// flags

type cfFlag struct {
	name, kind, dflt string
	envs             []string
}

func (g *cfGen) flags() []cfFlag {
	fp := load("utils/flags")
	fg := &cfGen{p: fp}
	fd := fp.findFunc("", "GetCliFlags")
	var lit *ast.CompositeLit
	for _, s := range fd.Body.List {
		if rs, ok := s.(*ast.ReturnStmt); ok && len(rs.Results) == 1 {
			lit, _ = rs.Results[0].(*ast.CompositeLit)
		}
	}
	if lit == nil || len(fd.Body.List) != 1 {
		die("config: GetCliFlags is not a single return of a composite literal")
	}
	var out []cfFlag
	for _, el := range lit.Elts {
		ue, ok := el.(*ast.UnaryExpr)
		if !ok || ue.Op != token.AND {
			die("config: %s: flag is not &cli.XFlag{...}", fg.pos(el))
		}
		cl, ok := ue.X.(*ast.CompositeLit)
		if !ok {
			die("config: %s: flag is not a composite literal", fg.pos(el))
		}
		se, ok := cl.Type.(*ast.SelectorExpr)
		if !ok {
			die("config: %s: flag type", fg.pos(el))
		}
		f := cfFlag{}
		switch se.Sel.Name {
		case "StringFlag":
			f.kind, f.dflt = "KString", "VS \"\""
		case "IntFlag":
			f.kind, f.dflt = "KInt", "VI 0"
		case "Int64Flag":
			f.kind, f.dflt = "KInt64", "VI 0"
		case "BoolFlag":
			f.kind, f.dflt = "KBool", "VB false"
		case "DurationFlag":
			f.kind, f.dflt = "KDuration", "VD 0"
		default:
			die("config: %s: unsupported flag type %s", fg.pos(el), se.Sel.Name)
		}
		for _, fe := range cl.Elts {
			kv, ok := fe.(*ast.KeyValueExpr)
			if !ok {
				die("config: %s: positional flag field", fg.pos(fe))
			}
			switch kv.Key.(*ast.Ident).Name {
			case "Name":
				v := fg.constOf(kv.Value)
				if v == nil || v.Kind() != constant.String {
					die("config: %s: flag name is not a constant string", fg.pos(kv))
				}
				f.name = constant.StringVal(v)
			case "Value":
				v := fg.constOf(kv.Value)
				if v == nil {
					die("config: %s: flag default is not a constant", fg.pos(kv))
				}
				switch f.kind {
				case "KString":
					f.dflt = "VS " + coqString(constant.StringVal(v))
				case "KInt", "KInt64":
					f.dflt = "VI " + coqZ(constant.ToInt(v).ExactString())
				case "KDuration":
					f.dflt = "VD " + coqZ(constant.ToInt(v).ExactString())
				case "KBool":
					f.dflt = "VB " + strconv.FormatBool(constant.BoolVal(v))
				}
			case "EnvVars":
				ecl, ok := kv.Value.(*ast.CompositeLit)
				if !ok {
					die("config: %s: EnvVars is not a literal", fg.pos(kv))
				}
				for _, ee := range ecl.Elts {
					v := fg.constOf(ee)
					if v == nil || v.Kind() != constant.String {
						die("config: %s: env var name is not a constant", fg.pos(ee))
					}
					f.envs = append(f.envs, constant.StringVal(v))
				}
			case "Usage", "DefaultText":
			case "Aliases", "Required", "Hidden", "FilePath", "Destination", "Action", "TakesFile", "Category":
				die("config: %s: flag field %s is not modelled", fg.pos(kv), kv.Key.(*ast.Ident).Name)
			default:
				die("config: %s: unknown flag field %s", fg.pos(kv), kv.Key.(*ast.Ident).Name)
			}
		}
		if f.name == "" {
			die("config: %s: flag without a name", fg.pos(el))
		}
		out = append(out, f)
	}
	return out
}

func emitFlags(w *bytes.Buffer, fl []cfFlag) {
	w.WriteString("(* utils/flags/flags.go GetCliFlags *)\nRecord flag := mkFlag { fl_name : string; fl_kind : kind; fl_default : value; fl_env : list string }.\n")
	w.WriteString("Definition cli_flags : list flag := [\n")
	for i, f := range fl {
		var es []string
		for _, e := range f.envs {
			es = append(es, coqString(e))
		}
		sep := ";"
		if i == len(fl)-1 {
			sep = ""
		}
		fmt.Fprintf(w, "  mkFlag %s %s (%s) [%s]%s\n", coqString(f.name), f.kind, f.dflt, strings.Join(es, "; "), sep)
	}
	w.WriteString("].\n\n")
}

// string list returned by func name() in package dir (elements are constants)
func cfStringList(dir, name string) []string {
	p := load(dir)
	g := &cfGen{p: p}
	fd := p.findFunc("", name)
	if len(fd.Body.List) != 1 {
		die("config: %s.%s is not a single return", dir, name)
	}
	rs, ok := fd.Body.List[0].(*ast.ReturnStmt)
	if !ok || len(rs.Results) != 1 {
		die("config: %s.%s is not a single return", dir, name)
	}
	cl, ok := rs.Results[0].(*ast.CompositeLit)
	if !ok {
		die("config: %s.%s does not return a literal", dir, name)
	}
	var out []string
	for _, e := range cl.Elts {
		v := g.constOf(e)
		if v == nil || v.Kind() != constant.String {
			die("config: %s.%s: non-constant element", dir, name)
		}
		out = append(out, coqString(constant.StringVal(v)))
	}
	return out
}

func cfSrcText(p *pkg, n ast.Node) string {
	a, b := p.fset.Position(n.Pos()), p.fset.Position(n.End())
	data, err := os.ReadFile(a.Filename)
	if err != nil {
		die("config: %v", err)
	}
	return strings.Join(strings.Fields(string(data[a.Offset:b.Offset])), " ")
}

var _ = sort.Strings
var _ = filepath.Join

// ---------------------------------------------------------------------------------------------
// intermediate form of a translated function body, and its printing as Gallina
//
//   cfLet    let name := val in ...                          (decl: the Go statement declared it)
//   cfRet    a return: val is a complete `result` term
//   cfBind   bind call (fun pat => ...rest of the block...)  (an error of the callee propagates)
//   cfBranch if cond then A else B   |   match scrut with Some pat => A | None => B end
//
// A branching statement followed by more statements is printed without duplicating them:
// if all branches but one end in a return, the rest goes into that branch; if no branch
// contains a return, the variables it assigns are rebound by a let; otherwise the branches
// produce `Ok (assigned variables)` / `Err _` and the rest continues under `bind`.

type cfStmt interface{}

type cfLet struct {
	name, val string
	decl      bool
}
type cfRet struct {
	val   string
	isErr bool
}
type cfBind struct {
	call, pat string
	outer     []string // variables of the enclosing scope the pattern rebinds
}
type cfBranch struct {
	cond       string // if
	scrut, pat string // match (when cond == "")
	patDecl    []string
	patOuter   []string
	a, b       []cfStmt
}

func cfTerminates(ss []cfStmt) bool {
	if len(ss) == 0 {
		return false
	}
	switch x := ss[len(ss)-1].(type) {
	case cfRet:
		return true
	case cfBranch:
		return cfTerminates(x.a) && cfTerminates(x.b)
	}
	return false
}

func cfHasReturn(ss []cfStmt) bool {
	for _, s := range ss {
		switch x := s.(type) {
		case cfRet, cfBind:
			return true
		case cfBranch:
			if cfHasReturn(x.a) || cfHasReturn(x.b) {
				return true
			}
		}
	}
	return false
}

func cfOkReturnInside(ss []cfStmt) bool {
	for _, s := range ss {
		switch x := s.(type) {
		case cfRet:
			if !x.isErr {
				return true
			}
		case cfBranch:
			if cfOkReturnInside(x.a) || cfOkReturnInside(x.b) {
				return true
			}
		}
	}
	return false
}

// variables of the enclosing scope assigned somewhere in ss
func cfAssigned(ss []cfStmt, declared map[string]bool, out map[string]bool) {
	d := map[string]bool{}
	for k := range declared {
		d[k] = true
	}
	for _, s := range ss {
		switch x := s.(type) {
		case cfLet:
			if x.decl {
				d[x.name] = true
			} else if !d[x.name] {
				out[x.name] = true
			}
		case cfBind:
			for _, n := range x.outer {
				if !d[n] {
					out[n] = true
				}
			}
		case cfBranch:
			da := map[string]bool{}
			for k := range d {
				da[k] = true
			}
			for _, n := range x.patDecl {
				da[n] = true
			}
			for _, n := range x.patOuter {
				if !d[n] {
					out[n] = true
				}
			}
			cfAssigned(x.a, da, out)
			cfAssigned(x.b, d, out)
		}
	}
}

func cfTuple(vs []string) string {
	switch len(vs) {
	case 0:
		return "tt"
	case 1:
		return vs[0]
	}
	return "(" + strings.Join(vs, ", ") + ")"
}

func cfFunPat(vs []string) string {
	switch len(vs) {
	case 0:
		return "_"
	case 1:
		return vs[0]
	}
	return "'(" + strings.Join(vs, ", ") + ")"
}

type cfPrinter struct{ where string }

func (pr *cfPrinter) branch(x cfBranch, a, b, ind string) string {
	if x.cond != "" {
		return fmt.Sprintf("if %s then\n%s  %s\n%selse\n%s  %s", x.cond, ind, a, ind, ind, b)
	}
	return fmt.Sprintf("match %s with\n%s| Some %s =>\n%s  %s\n%s| None =>\n%s  %s\n%send", x.scrut, ind, x.pat, ind, a, ind, ind, b, ind)
}

func (pr *cfPrinter) emit(ss []cfStmt, fall, ind string) string {
	if len(ss) == 0 {
		if fall == "" {
			die("config: %s: control reaches the end of a block that must return", pr.where)
		}
		return fall
	}
	rest := ss[1:]
	switch x := ss[0].(type) {
	case cfLet:
		if len(rest) == 0 && fall == x.name {
			return x.val
		}
		return fmt.Sprintf("let %s := %s in\n%s%s", x.name, x.val, ind, pr.emit(rest, fall, ind))
	case cfRet:
		return x.val
	case cfBind:
		return fmt.Sprintf("bind %s (fun %s =>\n%s%s)", x.call, x.pat, ind, pr.emit(rest, fall, ind))
	case cfBranch:
		if len(rest) == 0 {
			return pr.branch(x, pr.emit(x.a, fall, ind+"  "), pr.emit(x.b, fall, ind+"  "), ind)
		}
		ta, tb := cfTerminates(x.a), cfTerminates(x.b)
		switch {
		case ta && tb:
			return pr.branch(x, pr.emit(x.a, "", ind+"  "), pr.emit(x.b, "", ind+"  "), ind)
		case ta:
			return pr.branch(x, pr.emit(x.a, "", ind+"  "), pr.emit(append(append([]cfStmt{}, x.b...), rest...), fall, ind+"  "), ind)
		case tb:
			return pr.branch(x, pr.emit(append(append([]cfStmt{}, x.a...), rest...), fall, ind+"  "), pr.emit(x.b, "", ind+"  "), ind)
		}
		set := map[string]bool{}
		cfAssigned([]cfStmt{x}, map[string]bool{}, set)
		var vs []string
		for v := range set {
			vs = append(vs, v)
		}
		sort.Strings(vs)
		if !cfHasReturn(x.a) && !cfHasReturn(x.b) {
			if len(vs) == 0 {
				return pr.emit(rest, fall, ind)
			}
			pat := vs[0]
			if len(vs) > 1 {
				pat = "'(" + strings.Join(vs, ", ") + ")"
			}
			t := cfTuple(vs)
			return fmt.Sprintf("let %s :=\n%s  %s in\n%s%s", pat, ind, pr.branch(x, pr.emit(x.a, t, ind+"    "), pr.emit(x.b, t, ind+"    "), ind+"  "), ind, pr.emit(rest, fall, ind))
		}
		if cfOkReturnInside(x.a) || cfOkReturnInside(x.b) {
			die("config: %s: a successful return inside a block that can also fall through is not supported", pr.where)
		}
		t := "Ok " + cfTuple(vs)
		return fmt.Sprintf("bind (%s) (fun %s =>\n%s%s)", pr.branch(x, pr.emit(x.a, t, ind+"    "), pr.emit(x.b, t, ind+"    "), ind+"  "), cfFunPat(vs), ind, pr.emit(rest, fall, ind))
	}
	die("config: %s: unknown intermediate statement", pr.where)
	return ""
}

// ---------------------------------------------------------------------------------------------
// Go function bodies -> intermediate form

type cfVar struct{ coq, ty string }

type cfTr struct {
	g         *cfGen
	fn        string
	base      int
	nerr      int
	vars      map[string]cfVar
	guards    map[string]cfVar // Go path text of a pointer / slice -> the variable bound to what it points to
	gassigned map[string]bool
	sets      map[string]bool // variables made by make(map[..]bool)
	self      string          // Coq term a bare `return nil` yields (the possibly modified receiver / parameter)
	results   int
	extErr    string // description of the external call whose error the current branch returns
}

func cfPath(e ast.Expr) string {
	switch x := e.(type) {
	case *ast.Ident:
		return x.Name
	case *ast.SelectorExpr:
		if p := cfPath(x.X); p != "" {
			return p + "." + x.Sel.Name
		}
	case *ast.ParenExpr:
		return cfPath(x.X)
	}
	return ""
}

func cfIsNil(e ast.Expr) bool {
	id, ok := e.(*ast.Ident)
	return ok && id.Name == "nil"
}

// e is `P op nil`
func cfNilTest(e ast.Expr, op token.Token) (ast.Expr, bool) {
	if p, ok := e.(*ast.ParenExpr); ok {
		return cfNilTest(p.X, op)
	}
	b, ok := e.(*ast.BinaryExpr)
	if !ok || b.Op != op || !cfIsNil(b.Y) {
		return nil, false
	}
	return b.X, true
}

func cfPointee(ty string) string {
	switch {
	case ty == "pint":
		return "int"
	case ty == "purl":
		return "URL"
	case ty == "floats":
		return "list"
	case strings.HasPrefix(ty, "P:"):
		return "S:" + ty[2:]
	}
	return ""
}

// error codes are assigned afterwards, in source order (see translate)
func (t *cfTr) newErr(msg string, at ast.Node) cfRet {
	t.nerr++
	tag := fmt.Sprintf("@E%d_%d@", t.base, t.nerr)
	t.g.errs = append(t.g.errs, cfErr{0, t.fn, msg, at.Pos(), tag})
	return cfRet{"Err (EOther " + tag + ")", true}
}

func (t *cfTr) guardName(p ast.Expr) string {
	pt := cfPath(p)
	return "g_" + pt[strings.LastIndex(pt, ".")+1:]
}

func cfMentions(code, name string) bool {
	for i := 0; i+len(name) <= len(code); i++ {
		if code[i:i+len(name)] != name {
			continue
		}
		okL := i == 0 || !(code[i-1] == '_' || code[i-1] >= 'a' && code[i-1] <= 'z' || code[i-1] >= 'A' && code[i-1] <= 'Z' || code[i-1] >= '0' && code[i-1] <= '9')
		j := i + len(name)
		okR := j == len(code) || !(code[j] == '_' || code[j] >= 'a' && code[j] <= 'z' || code[j] >= 'A' && code[j] <= 'Z' || code[j] >= '0' && code[j] <= '9')
		if okL && okR {
			return true
		}
	}
	return false
}

func (t *cfTr) expr(e ast.Expr) (string, string) {
	g := t.g
	if _, isId := e.(*ast.Ident); !isId {
		if v := g.constOf(e); v != nil {
			switch v.Kind() {
			case constant.String:
				return coqString(constant.StringVal(v)), "string"
			case constant.Int:
				return coqZ(v.ExactString()), "int"
			case constant.Bool:
				return strconv.FormatBool(constant.BoolVal(v)), "bool"
			}
		}
	}
	switch x := e.(type) {
	case *ast.ParenExpr:
		return t.expr(x.X)
	case *ast.Ident:
		switch x.Name {
		case "nil":
			return "None", "nil"
		case "true", "false":
			return x.Name, "bool"
		}
		if v, ok := t.vars[x.Name]; ok {
			return v.coq, v.ty
		}
		if v := g.constOf(e); v != nil {
			switch v.Kind() {
			case constant.String:
				return coqString(constant.StringVal(v)), "string"
			case constant.Int:
				return coqZ(v.ExactString()), "int"
			}
		}
		if g.pkgFloats(x.Name) != nil {
			return "pkgvar_" + x.Name, "floats"
		}
		die("config: %s: unknown identifier %s", g.pos(e), x.Name)
	case *ast.SelectorExpr:
		pt := cfPath(x.X)
		var bc, bty string
		if gv, ok := t.guards[pt]; ok && pt != "" {
			bc, bty = gv.coq, gv.ty
		} else {
			bc, bty = t.expr(x.X)
		}
		switch {
		case bty == "URL":
			if x.Sel.Name != "Scheme" {
				die("config: %s: url.URL field %s is not modelled", g.pos(e), x.Sel.Name)
			}
			return fmt.Sprintf("(URL_Scheme %s)", bc), "string"
		case strings.HasPrefix(bty, "S:"):
			f := g.field(bty[2:], x.Sel.Name)
			if f == nil {
				die("config: %s: %s has no basic field %s", g.pos(e), bty[2:], x.Sel.Name)
			}
			return fmt.Sprintf("(%s_%s %s)", bty[2:], x.Sel.Name, bc), f.ty
		case strings.HasPrefix(bty, "P:") || bty == "purl":
			die("config: %s: %s is dereferenced without a dominating nil check", g.pos(e), pt)
		}
		die("config: %s: unsupported selector on a value of type %q", g.pos(e), bty)
	case *ast.StarExpr:
		if gv, ok := t.guards[cfPath(x.X)]; ok {
			return gv.coq, gv.ty
		}
		die("config: %s: *%s without a dominating nil check", g.pos(e), cfPath(x.X))
	case *ast.UnaryExpr:
		switch x.Op {
		case token.NOT:
			c, _ := t.expr(x.X)
			return "(negb " + c + ")", "bool"
		case token.AND:
			if cl, ok := x.X.(*ast.CompositeLit); ok {
				c, ty := t.expr(cl)
				return "(Some " + c + ")", "P:" + ty[2:]
			}
			return t.expr(x.X) // &c where c is a local struct value
		}
	case *ast.BinaryExpr:
		return t.binary(x)
	case *ast.CallExpr:
		return t.call(x)
	case *ast.SliceExpr:
		if x.High != nil || x.Max != nil || x.Low == nil {
			die("config: %s: only s[n:] is supported", g.pos(e))
		}
		lo := g.constOf(x.Low)
		s, sty := t.expr(x.X)
		if lo == nil || sty != "string" {
			die("config: %s: only s[constant:] on strings is supported", g.pos(e))
		}
		return fmt.Sprintf("(str_drop %s %s)", coqZ(lo.ExactString()), s), "string"
	case *ast.CompositeLit:
		id, ok := x.Type.(*ast.Ident)
		if !ok || g.structs[id.Name] == nil {
			die("config: %s: unsupported composite literal", g.pos(e))
		}
		given := map[string]string{}
		for _, el := range x.Elts {
			kv, ok := el.(*ast.KeyValueExpr)
			if !ok {
				die("config: %s: positional composite literal", g.pos(el))
			}
			k := kv.Key.(*ast.Ident).Name
			f := g.field(id.Name, k)
			if f == nil {
				die("config: %s: %s has no basic field %s", g.pos(kv), id.Name, k)
			}
			c, cty := t.expr(kv.Value)
			if cty != f.ty && !(cty == "nil" && cfPointee(f.ty) != "") {
				die("config: %s: field %s.%s of type %q initialised with %q", g.pos(kv), id.Name, k, f.ty, cty)
			}
			given[k] = c
		}
		var parts []string
		for _, f := range g.structs[id.Name].fields {
			v, ok := given[f.goName]
			if !ok {
				v = g.zero(f.ty)
			}
			parts = append(parts, fmt.Sprintf("%s_%s := %s", id.Name, f.goName, v))
		}
		return "{| " + strings.Join(parts, ";\n      ") + " |}", "S:" + id.Name
	}
	die("config: %s: unsupported expression %T", g.pos(e), e)
	return "", ""
}

func (t *cfTr) binary(x *ast.BinaryExpr) (string, string) {
	g := t.g
	switch x.Op {
	case token.LAND:
		if p, ok := cfNilTest(x.X, token.NEQ); ok {
			pc, pty := t.expr(p)
			if cfPointee(pty) == "" {
				die("config: %s: nil test on a value of type %q", g.pos(x), pty)
			}
			gn := t.guardName(p)
			pt := cfPath(p)
			old, had := t.guards[pt]
			t.guards[pt] = cfVar{gn, cfPointee(pty)}
			rc, _ := t.expr(x.Y)
			if had {
				t.guards[pt] = old
			} else {
				delete(t.guards, pt)
			}
			if cfMentions(rc, gn) {
				return fmt.Sprintf("match %s with Some %s => %s | None => false end", pc, gn, rc), "bool"
			}
			return fmt.Sprintf("(is_some %s && %s)", pc, rc), "bool"
		}
		a, _ := t.expr(x.X)
		b, _ := t.expr(x.Y)
		return fmt.Sprintf("(%s && %s)", a, b), "bool"
	case token.LOR:
		a, _ := t.expr(x.X)
		b, _ := t.expr(x.Y)
		return fmt.Sprintf("(%s || %s)", a, b), "bool"
	}
	if cfIsNil(x.Y) && (x.Op == token.EQL || x.Op == token.NEQ) {
		pc, pty := t.expr(x.X)
		if cfPointee(pty) == "" {
			die("config: %s: nil test on a value of type %q", g.pos(x), pty)
		}
		if x.Op == token.NEQ {
			return "(is_some " + pc + ")", "bool"
		}
		return "(negb (is_some " + pc + "))", "bool"
	}
	a, aty := t.expr(x.X)
	b, bty := t.expr(x.Y)
	if aty == "dur" && bty == "int" { // untyped constant compared with a time.Duration
		bty = "dur"
	} else if aty == "int" && bty == "dur" {
		aty = "dur"
	}
	if aty != bty {
		die("config: %s: operands of types %q and %q", g.pos(x), aty, bty)
	}
	eq := map[string]string{"string": "String.eqb", "int": "Z.eqb", "dur": "Z.eqb", "bool": "Bool.eqb"}[aty]
	switch x.Op {
	case token.EQL:
		if eq != "" {
			return fmt.Sprintf("(%s %s %s)", eq, a, b), "bool"
		}
	case token.NEQ:
		if eq != "" {
			return fmt.Sprintf("(negb (%s %s %s))", eq, a, b), "bool"
		}
	case token.LSS, token.LEQ, token.GTR, token.GEQ:
		if aty == "int" || aty == "dur" {
			return fmt.Sprintf("(%s %s? %s)", a, x.Op.String(), b), "bool"
		}
	case token.ADD:
		if aty == "string" {
			return fmt.Sprintf("(%s ++ %s)", a, b), "string"
		}
		if aty == "int" {
			return fmt.Sprintf("(%s + %s)", a, b), "int"
		}
	}
	die("config: %s: unsupported operator %s on %q", g.pos(x), x.Op, aty)
	return "", ""
}

func cfCallee(x *ast.CallExpr) string {
	switch f := x.Fun.(type) {
	case *ast.Ident:
		return f.Name
	case *ast.SelectorExpr:
		if p := cfPath(f.X); p != "" {
			return p + "." + f.Sel.Name
		}
	}
	return ""
}

func (t *cfTr) args(x *ast.CallExpr) []string {
	var out []string
	for _, a := range x.Args {
		c, _ := t.expr(a)
		out = append(out, c)
	}
	return out
}

// calls that cannot fail
func (t *cfTr) call(x *ast.CallExpr) (string, string) {
	g := t.g
	name := cfCallee(x)
	a := func(n int) []string {
		if len(x.Args) != n {
			die("config: %s: %s with %d arguments", g.pos(x), name, len(x.Args))
		}
		return t.args(x)
	}
	switch name {
	case "strings.HasPrefix":
		as := a(2)
		return fmt.Sprintf("(String.prefix %s %s)", as[1], as[0]), "bool"
	case "net.JoinHostPort":
		as := a(2)
		return fmt.Sprintf("(net_JoinHostPort X %s %s)", as[0], as[1]), "string"
	case "strconv.Itoa":
		return fmt.Sprintf("(strconv_Itoa X %s)", a(1)[0]), "string"
	case "s3proxy.IsValidAuthMethod":
		return fmt.Sprintf("(s3proxy_IsValidAuthMethod X %s)", a(1)[0]), "bool"
	case "azblobproxy.IsValidAuthMethod":
		return fmt.Sprintf("(azblobproxy_IsValidAuthMethod X %s)", a(1)[0]), "bool"
	}
	if se, ok := x.Fun.(*ast.SelectorExpr); ok {
		if v, ok := t.vars[cfPath(se.X)]; ok && v.ty == "ctx" {
			ty := map[string]string{"String": "string", "Int": "int", "Int64": "int", "Bool": "bool", "Duration": "dur"}[se.Sel.Name]
			fl := g.constOf(x.Args[0])
			if ty == "" || len(x.Args) != 1 || fl == nil || fl.Kind() != constant.String {
				die("config: %s: unsupported use of the cli context", g.pos(x))
			}
			return fmt.Sprintf("(Ctx_%s %s %s)", se.Sel.Name, v.coq, coqString(constant.StringVal(fl))), ty
		}
	}
	die("config: %s: unsupported call %s", g.pos(x), name)
	return "", ""
}

// package-level `var name = []float64{...}`
func (g *cfGen) pkgFloats(name string) []string {
	for _, f := range g.p.files {
		for _, d := range f.Decls {
			gd, ok := d.(*ast.GenDecl)
			if !ok || gd.Tok != token.VAR {
				continue
			}
			for _, sp := range gd.Specs {
				vs := sp.(*ast.ValueSpec)
				for i, id := range vs.Names {
					if id.Name != name || i >= len(vs.Values) {
						continue
					}
					cl, ok := vs.Values[i].(*ast.CompositeLit)
					if !ok || g.goType(cl.Type) != "floats" {
						return nil
					}
					var xs []string
					for _, el := range cl.Elts {
						v := g.constOf(el)
						if v == nil {
							die("config: var %s: non-constant element", name)
						}
						xs = append(xs, cfMilli(v, name))
					}
					return xs
				}
			}
		}
	}
	return nil
}

// ---------------------------------------------------------------------------------------------
// statements

func cfIsErrNotNil(e ast.Expr) bool {
	p, ok := cfNilTest(e, token.NEQ)
	if !ok {
		return false
	}
	id, ok := p.(*ast.Ident)
	return ok && id.Name == "err"
}

// `return err` / `return nil, err`
func cfIsReturnErr(s ast.Stmt) bool {
	rs, ok := s.(*ast.ReturnStmt)
	if !ok || len(rs.Results) == 0 {
		return false
	}
	last, ok := rs.Results[len(rs.Results)-1].(*ast.Ident)
	if !ok || last.Name != "err" {
		return false
	}
	for _, r := range rs.Results[:len(rs.Results)-1] {
		if !cfIsNil(r) {
			return false
		}
	}
	return true
}

func (t *cfTr) errMessage(e ast.Expr) string {
	g := t.g
	ce, ok := e.(*ast.CallExpr)
	if !ok {
		die("config: %s: unsupported error value", g.pos(e))
	}
	switch cfCallee(ce) {
	case "errors.New":
		// the constant prefix of the message
		arg := ce.Args[0]
		for {
			if v := g.constOf(arg); v != nil && v.Kind() == constant.String {
				return constant.StringVal(v)
			}
			b, ok := arg.(*ast.BinaryExpr)
			if !ok || b.Op != token.ADD {
				die("config: %s: error message without a constant prefix", g.pos(e))
			}
			arg = b.X
		}
	case "fmt.Errorf":
		v := g.constOf(ce.Args[0])
		if v == nil || v.Kind() != constant.String {
			die("config: %s: non-constant format string", g.pos(e))
		}
		s := constant.StringVal(v)
		if i := strings.Index(s, "%"); i >= 0 {
			s = s[:i]
		}
		return s
	}
	die("config: %s: unsupported error constructor %s", g.pos(e), cfCallee(ce))
	return ""
}

func (t *cfTr) ret(rs *ast.ReturnStmt) cfStmt {
	g := t.g
	if len(rs.Results) == 1 && t.results == 2 {
		if ce, ok := rs.Results[0].(*ast.CallExpr); ok {
			switch cfCallee(ce) {
			case "newFromArgs":
				return cfRet{"(newFromArgs X " + strings.Join(t.args(ce), "\n      ") + ")", false}
			case "newFromYamlFile":
				return cfRet{"(newFromYamlFile X " + strings.Join(t.args(ce), " ") + ")", false}
			}
		}
	}
	if len(rs.Results) != t.results {
		die("config: %s: return with %d values", g.pos(rs), len(rs.Results))
	}
	if cfIsReturnErr(rs) {
		if t.extErr == "" {
			die("config: %s: `return err` outside a recognised error check", g.pos(rs))
		}
		return t.newErr("("+t.extErr+")", rs)
	}
	last := rs.Results[len(rs.Results)-1]
	if t.results == 1 {
		if cfIsNil(last) {
			return cfRet{"Ok " + t.self, false}
		}
		return t.newErr(t.errMessage(last), rs)
	}
	if cfIsNil(last) {
		c, ty := t.expr(rs.Results[0])
		if !strings.HasPrefix(ty, "S:") {
			die("config: %s: unsupported successful return", g.pos(rs))
		}
		return cfRet{"Ok " + c, false}
	}
	if !cfIsNil(rs.Results[0]) {
		die("config: %s: a value returned together with an error", g.pos(rs))
	}
	return t.newErr(t.errMessage(last), rs)
}

// assignment `lhs = c` (lhs a local variable, or a field of a local / guarded struct)
func (t *cfTr) assign(lhs ast.Expr, c, cty string, define bool) []cfStmt {
	g := t.g
	switch l := lhs.(type) {
	case *ast.Ident:
		if define {
			t.vars[l.Name] = cfVar{"v_" + l.Name, cty}
			return []cfStmt{cfLet{"v_" + l.Name, c, true}}
		}
		v, ok := t.vars[l.Name]
		if !ok {
			die("config: %s: assignment to unknown variable %s", g.pos(lhs), l.Name)
		}
		if v.ty != cty && !(cty == "nil" && cfPointee(v.ty) != "") {
			die("config: %s: %s of type %q assigned a %q", g.pos(lhs), l.Name, v.ty, cty)
		}
		return []cfStmt{cfLet{v.coq, c, false}}
	case *ast.SelectorExpr:
		pt := cfPath(l.X)
		var bc, bty string
		if gv, ok := t.guards[pt]; ok {
			bc, bty = gv.coq, gv.ty
			t.gassigned[bc] = true
		} else if v, ok := t.vars[pt]; ok {
			bc, bty = v.coq, v.ty
		} else {
			die("config: %s: assignment through %s", g.pos(lhs), pt)
		}
		if !strings.HasPrefix(bty, "S:") {
			die("config: %s: field assignment on a %q", g.pos(lhs), bty)
		}
		f := g.field(bty[2:], l.Sel.Name)
		if f != nil && f.ty == "dur" && cty == "int" {
			cty = "dur"
		}
		if f == nil || (f.ty != cty) {
			die("config: %s: cannot assign a %q to %s.%s", g.pos(lhs), cty, bty[2:], l.Sel.Name)
		}
		return []cfStmt{cfLet{bc, fmt.Sprintf("(%s %s %s)", g.needSetter(bty[2:], l.Sel.Name), c, bc), false}}
	}
	die("config: %s: unsupported assignment target", g.pos(lhs))
	return nil
}

// write a modified guarded value back into the struct that holds the pointer: path is root.Field
func (t *cfTr) writeBack(p ast.Expr, gn string) cfStmt {
	g := t.g
	se, ok := p.(*ast.SelectorExpr)
	if !ok {
		die("config: %s: cannot write back through %s", g.pos(p), cfPath(p))
	}
	root, ok := t.vars[cfPath(se.X)]
	if !ok || !strings.HasPrefix(root.ty, "S:") {
		die("config: %s: cannot write back through %s", g.pos(p), cfPath(p))
	}
	return cfLet{root.coq, fmt.Sprintf("(%s (Some %s) %s)", g.needSetter(root.ty[2:], se.Sel.Name), gn, root.coq), false}
}

func (t *cfTr) withGuard(p ast.Expr, body func() []cfStmt) (string, string, []cfStmt) {
	g := t.g
	pc, pty := t.expr(p)
	if cfPointee(pty) == "" {
		die("config: %s: nil test on a value of type %q", g.pos(p), pty)
	}
	gn := t.guardName(p)
	pt := cfPath(p)
	if _, dup := t.guards[pt]; dup {
		die("config: %s: nested nil checks of %s", g.pos(p), pt)
	}
	t.guards[pt] = cfVar{gn, cfPointee(pty)}
	t.gassigned[gn] = false
	ss := body()
	if t.gassigned[gn] && !cfTerminates(ss) {
		ss = append(ss, t.writeBack(p, gn))
	}
	delete(t.guards, pt)
	return pc, gn, ss
}

func (t *cfTr) elseBlock(e ast.Stmt) []cfStmt {
	switch x := e.(type) {
	case nil:
		return nil
	case *ast.BlockStmt:
		return t.block(x.List)
	case *ast.IfStmt:
		return t.block([]ast.Stmt{x})
	}
	die("config: %s: unsupported else", t.g.pos(e))
	return nil
}

func (t *cfTr) block(ss []ast.Stmt) []cfStmt {
	g := t.g
	var out []cfStmt
	for i := 0; i < len(ss); i++ {
		switch x := ss[i].(type) {
		case *ast.DeclStmt:
			gd := x.Decl.(*ast.GenDecl)
			if gd.Tok != token.VAR {
				die("config: %s: unsupported declaration", g.pos(x))
			}
			for _, sp := range gd.Specs {
				vs := sp.(*ast.ValueSpec)
				if len(vs.Values) != 0 {
					die("config: %s: var with an initialiser", g.pos(x))
				}
				if id, ok := vs.Type.(*ast.Ident); ok && id.Name == "error" {
					continue
				}
				ty := g.goType(vs.Type)
				if ty == "" {
					die("config: %s: variable of unsupported type", g.pos(x))
				}
				for _, n := range vs.Names {
					t.vars[n.Name] = cfVar{"v_" + n.Name, ty}
					out = append(out, cfLet{"v_" + n.Name, "(" + g.zero(ty) + " : " + cfCoqTy(ty) + ")", true})
				}
			}
		case *ast.IncDecStmt:
			c, ty := t.expr(x.X)
			if ty != "int" || x.Tok != token.INC {
				die("config: %s: unsupported ++/--", g.pos(x))
			}
			out = append(out, t.assign(x.X, "("+c+" + 1)", "int", false)...)
		case *ast.ExprStmt:
			ce, ok := x.X.(*ast.CallExpr)
			if !ok || cfCallee(ce) != "sort.Float64s" || len(ce.Args) != 1 {
				die("config: %s: unsupported expression statement", g.pos(x))
			}
			gv, ok := t.guards[cfPath(ce.Args[0])]
			if !ok || gv.ty != "list" {
				die("config: %s: sort.Float64s on something that is not a nil-checked []float64", g.pos(x))
			}
			t.gassigned[gv.coq] = true
			out = append(out, cfLet{gv.coq, fmt.Sprintf("(sort_Float64s X %s)", gv.coq), false})
		case *ast.AssignStmt:
			if done, r := t.assignStmt(x, ss[i+1:]); done {
				return append(out, r...)
			} else {
				out = append(out, r...)
			}
		case *ast.IfStmt:
			if done, r := t.ifStmt(x, ss[i+1:]); done {
				return append(out, r...)
			} else {
				out = append(out, r...)
			}
		case *ast.SwitchStmt:
			if x.Init != nil || x.Tag == nil {
				die("config: %s: unsupported switch", g.pos(x))
			}
			tag, tty := t.expr(x.Tag)
			if tty != "string" {
				die("config: %s: switch on a %q", g.pos(x), tty)
			}
			var chain []cfStmt
			var clauses []*ast.CaseClause
			for _, c := range x.Body.List {
				cc := c.(*ast.CaseClause)
				if cc.List == nil {
					chain = t.block(cc.Body)
				} else {
					clauses = append(clauses, cc)
				}
			}
			for j := len(clauses) - 1; j >= 0; j-- {
				var cs []string
				for _, v := range clauses[j].List {
					c, cty := t.expr(v)
					if cty != "string" {
						die("config: %s: case of type %q", g.pos(v), cty)
					}
					cs = append(cs, fmt.Sprintf("String.eqb %s %s", tag, c))
				}
				chain = []cfStmt{cfBranch{cond: "(" + strings.Join(cs, " || ") + ")", a: t.block(clauses[j].Body), b: chain}}
			}
			out = append(out, chain...)
		case *ast.RangeStmt:
			out = append(out, t.dupLoop(x)...)
		case *ast.ReturnStmt:
			out = append(out, t.ret(x))
			return out
		default:
			die("config: %s: unsupported statement %T", g.pos(x), x)
		}
	}
	return out
}

// for _, v := range L { _, d := set[v]; if d { return E }; set[v] = true }
func (t *cfTr) dupLoop(x *ast.RangeStmt) []cfStmt {
	g := t.g
	bad := func() { die("config: %s: only the duplicate-detection loop over a set is supported", g.pos(x)) }
	v, ok := x.Value.(*ast.Ident)
	if !ok || x.Tok != token.DEFINE || len(x.Body.List) != 3 {
		bad()
	}
	if k, ok := x.Key.(*ast.Ident); !ok || k.Name != "_" {
		bad()
	}
	as, ok := x.Body.List[0].(*ast.AssignStmt)
	if !ok || len(as.Lhs) != 2 || len(as.Rhs) != 1 || as.Tok != token.DEFINE {
		bad()
	}
	ix, ok := as.Rhs[0].(*ast.IndexExpr)
	if !ok || !t.sets[cfPath(ix.X)] || cfPath(ix.Index) != v.Name {
		bad()
	}
	d, ok := as.Lhs[1].(*ast.Ident)
	if !ok || cfPath(as.Lhs[0]) != "_" {
		bad()
	}
	is, ok := x.Body.List[1].(*ast.IfStmt)
	if !ok || is.Init != nil || is.Else != nil || cfPath(is.Cond) != d.Name || len(is.Body.List) != 1 {
		bad()
	}
	rs, ok := is.Body.List[0].(*ast.ReturnStmt)
	if !ok {
		bad()
	}
	st, ok := x.Body.List[2].(*ast.AssignStmt)
	if !ok || len(st.Lhs) != 1 || st.Tok != token.ASSIGN || cfPath(st.Rhs[0]) != "true" {
		bad()
	}
	sx, ok := st.Lhs[0].(*ast.IndexExpr)
	if !ok || cfPath(sx.X) != cfPath(ix.X) || cfPath(sx.Index) != v.Name {
		bad()
	}
	gv, ok := t.guards[cfPath(x.X)]
	if !ok || gv.ty != "list" {
		bad()
	}
	return []cfStmt{cfBranch{cond: "(has_dup " + gv.coq + ")", a: []cfStmt{t.ret(rs)}}}
}

func (t *cfTr) assignStmt(x *ast.AssignStmt, rest []ast.Stmt) (bool, []cfStmt) {
	g := t.g
	define := x.Tok == token.DEFINE
	if x.Tok != token.DEFINE && x.Tok != token.ASSIGN {
		die("config: %s: unsupported assignment operator", g.pos(x))
	}
	if len(x.Rhs) != 1 {
		die("config: %s: unsupported parallel assignment", g.pos(x))
	}
	ce, isCall := x.Rhs[0].(*ast.CallExpr)
	callee := ""
	if isCall {
		callee = cfCallee(ce)
	}
	// make(map[K]bool): a set, used only by the duplicate-detection loop
	if callee == "make" && len(x.Lhs) == 1 {
		if mt, ok := ce.Args[0].(*ast.MapType); ok {
			if id, ok := mt.Value.(*ast.Ident); ok && id.Name == "bool" && len(ce.Args) == 1 {
				t.sets[cfPath(x.Lhs[0])] = true
				return false, nil
			}
		}
		die("config: %s: unsupported make", g.pos(x))
	}
	failing := map[string]bool{"net.SplitHostPort": true, "url.Parse": true, "yaml.Unmarshal": true, "validateConfig": true}
	if !failing[callee] {
		if len(x.Lhs) != 1 {
			die("config: %s: unsupported multi-value assignment", g.pos(x))
		}
		c, cty := t.expr(x.Rhs[0])
		return false, t.assign(x.Lhs[0], c, cty, define)
	}
	// v..., err := f(...) followed by `if err != nil { ... return }`
	if len(rest) == 0 {
		die("config: %s: the error of %s is not checked by the next statement", g.pos(x), callee)
	}
	chk, ok := rest[0].(*ast.IfStmt)
	if !ok || chk.Init != nil || chk.Else != nil || !cfIsErrNotNil(chk.Cond) {
		die("config: %s: the error of %s is not checked by the next statement", g.pos(x), callee)
	}
	if last, ok := x.Lhs[len(x.Lhs)-1].(*ast.Ident); !ok || last.Name != "err" {
		die("config: %s: the error of %s is not assigned to err", g.pos(x), callee)
	}
	as := t.args(ce)
	if callee == "validateConfig" {
		if len(chk.Body.List) != 1 || !cfIsReturnErr(chk.Body.List[0]) || len(x.Lhs) != 1 {
			die("config: %s: the error of validateConfig must be returned unchanged", g.pos(x))
		}
		arg := cfPath(ce.Args[0].(*ast.UnaryExpr).X)
		v := t.vars[arg]
		return true, append([]cfStmt{cfBind{call: "(validateConfig X " + v.coq + ")", pat: v.coq, outer: []string{v.coq}}}, t.block(rest[1:])...)
	}
	t.extErr = "error returned by " + callee
	none := t.block(chk.Body.List)
	t.extErr = ""
	if !cfTerminates(none) {
		die("config: %s: the error branch after %s does not return", g.pos(x), callee)
	}
	br := cfBranch{b: none}
	bindVar := func(l ast.Expr, ty string) string {
		id, ok := l.(*ast.Ident)
		if !ok {
			die("config: %s: unsupported target", g.pos(l))
		}
		if id.Name == "_" {
			return "_"
		}
		if define {
			t.vars[id.Name] = cfVar{"v_" + id.Name, ty}
			br.patDecl = append(br.patDecl, "v_"+id.Name)
		} else {
			if _, ok := t.vars[id.Name]; !ok {
				die("config: %s: unknown variable %s", g.pos(l), id.Name)
			}
			br.patOuter = append(br.patOuter, "v_"+id.Name)
		}
		return "v_" + id.Name
	}
	switch callee {
	case "net.SplitHostPort":
		if len(x.Lhs) != 3 {
			die("config: %s: net.SplitHostPort yields three values", g.pos(x))
		}
		br.scrut = "net_SplitHostPort X " + as[0]
		br.pat = "(" + bindVar(x.Lhs[0], "string") + ", " + bindVar(x.Lhs[1], "string") + ")"
	case "url.Parse":
		if len(x.Lhs) != 2 {
			die("config: %s: url.Parse yields two values", g.pos(x))
		}
		br.scrut = "url_Parse X " + as[0]
		br.pat = bindVar(x.Lhs[0], "URL")
		if id := x.Lhs[0].(*ast.Ident); id.Name != "_" { // a *url.URL that is not nil
			t.vars[id.Name] = cfVar{"(Some v_" + id.Name + ")", "purl"}
		}
	case "yaml.Unmarshal":
		if len(x.Lhs) != 1 || len(ce.Args) != 2 {
			die("config: %s: unsupported use of yaml.Unmarshal", g.pos(x))
		}
		ue, ok := ce.Args[1].(*ast.UnaryExpr)
		if !ok || ue.Op != token.AND {
			die("config: %s: yaml.Unmarshal target is not &variable", g.pos(x))
		}
		v := t.vars[cfPath(ue.X)]
		br.scrut = "yaml_Unmarshal X " + as[0] + " " + v.coq
		br.pat = v.coq
		br.patOuter = append(br.patOuter, v.coq)
	}
	br.a = t.block(rest[1:])
	return true, []cfStmt{br}
}

func (t *cfTr) ifStmt(x *ast.IfStmt, rest []ast.Stmt) (bool, []cfStmt) {
	g := t.g
	if x.Init != nil {
		// if err := P.validate("lit"); err != nil { return err }
		as, ok := x.Init.(*ast.AssignStmt)
		if !ok || as.Tok != token.DEFINE || len(as.Lhs) != 1 || cfPath(as.Lhs[0]) != "err" || !cfIsErrNotNil(x.Cond) ||
			x.Else != nil || len(x.Body.List) != 1 || !cfIsReturnErr(x.Body.List[0]) {
			die("config: %s: unsupported if with an init statement", g.pos(x))
		}
		ce, ok := as.Rhs[0].(*ast.CallExpr)
		if !ok {
			die("config: %s: unsupported if with an init statement", g.pos(x))
		}
		se, ok := ce.Fun.(*ast.SelectorExpr)
		if !ok || se.Sel.Name != "validate" {
			die("config: %s: unsupported call in if-init", g.pos(x))
		}
		gv, ok := t.guards[cfPath(se.X)]
		if !ok || gv.ty != "S:URLBackendConfig" {
			die("config: %s: validate on something that is not a nil-checked *URLBackendConfig", g.pos(x))
		}
		return false, []cfStmt{cfBind{call: "(URLBackendConfig_validate X " + gv.coq + " " + strings.Join(t.args(ce), " ") + ")", pat: "_"}}
	}
	if p, ok := cfNilTest(x.Cond, token.NEQ); ok {
		pc, gn, some := t.withGuard(p, func() []cfStmt { return t.block(x.Body.List) })
		return false, []cfStmt{cfBranch{scrut: pc, pat: gn, patDecl: []string{gn}, a: some, b: t.elseBlock(x.Else)}}
	}
	if p, ok := cfNilTest(x.Cond, token.EQL); ok && x.Else == nil {
		none := t.block(x.Body.List)
		if cfTerminates(none) {
			pc, gn, some := t.withGuard(p, func() []cfStmt { return t.block(rest) })
			return true, []cfStmt{cfBranch{scrut: pc, pat: gn, patDecl: []string{gn}, a: some, b: none}}
		}
		die("config: %s: `== nil` branch that falls through", g.pos(x))
	}
	c, cty := t.expr(x.Cond)
	if cty != "bool" {
		die("config: %s: condition of type %q", g.pos(x), cty)
	}
	return false, []cfStmt{cfBranch{cond: c, a: t.block(x.Body.List), b: t.elseBlock(x.Else)}}
}

// ---------------------------------------------------------------------------------------------
// whole functions

func (g *cfGen) translate(w *bytes.Buffer, coqName, recv, name string, base int, mutates bool) {
	fd := g.p.findFunc(recv, name)
	t := &cfTr{g: g, fn: coqName, base: base, vars: map[string]cfVar{}, guards: map[string]cfVar{}, gassigned: map[string]bool{}, sets: map[string]bool{}}
	var params []string
	addParam := func(n string, ty string) {
		t.vars[n] = cfVar{"v_" + n, ty}
		params = append(params, fmt.Sprintf("(v_%s : %s)", n, cfCoqTy(ty)))
	}
	first := ""
	if fd.Recv != nil {
		r := fd.Recv.List[0]
		ty := g.goType(r.Type)
		if !strings.HasPrefix(ty, "P:") {
			die("config: %s: unsupported receiver", g.pos(fd))
		}
		addParam(r.Names[0].Name, "S:"+ty[2:]) // the callers check the receiver against nil
		first = r.Names[0].Name
	}
	for _, f := range fd.Type.Params.List {
		ty := g.goType(f.Type)
		if ty == "" {
			die("config: %s: parameter of unsupported type", g.pos(f))
		}
		for _, n := range f.Names {
			if strings.HasPrefix(ty, "P:") && mutates && first == "" {
				addParam(n.Name, "S:"+ty[2:]) // validateConfig(c *Config): callers pass &local
			} else {
				addParam(n.Name, ty)
			}
			if first == "" {
				first = n.Name
			}
		}
	}
	t.results = len(fd.Type.Results.List)
	resTy := "Config"
	if t.results == 1 {
		if mutates {
			t.self = "v_" + first
			resTy = cfCoqTy(t.vars[first].ty)
		} else {
			t.self = "tt"
			resTy = "unit"
		}
	}
	body := t.block(fd.Body.List)
	if t.results == 1 && !mutates {
		out := map[string]bool{}
		cfAssigned(body, map[string]bool{}, out)
		if out["v_"+first] {
			die("config: %s: %s assigns through its receiver but is translated as read-only", g.pos(fd), name)
		}
	}
	pr := &cfPrinter{where: name}
	text := pr.emit(body, "", "  ")
	var mine []*cfErr
	for i := range g.errs {
		if g.errs[i].code == 0 {
			mine = append(mine, &g.errs[i])
		}
	}
	sort.SliceStable(mine, func(i, j int) bool { return mine[i].pos < mine[j].pos })
	for i, e := range mine {
		e.code = base + i + 1
		if strings.Count(text, e.tag) != 1 {
			die("config: %s: an error return was duplicated or lost in translation", name)
		}
		text = strings.Replace(text, e.tag, strconv.Itoa(e.code), 1)
	}
	fmt.Fprintf(w, "(* %s: %s *)\nDefinition %s (X : Ext) %s : result %s :=\n  %s.\n\n", g.pos(fd)[len(repo)+1:], name, coqName, strings.Join(params, " "), resTy, text)
}

// ---------------------------------------------------------------------------------------------
// wiring: which ctx.<Type>("flag") reaches which Config field through get -> newFromArgs

type cfRef struct{ acc, flag string }

func (g *cfGen) ctxRefs(n ast.Node, ctxName string) []cfRef {
	var out []cfRef
	ast.Inspect(n, func(m ast.Node) bool {
		ce, ok := m.(*ast.CallExpr)
		if !ok {
			return true
		}
		se, ok := ce.Fun.(*ast.SelectorExpr)
		if !ok || cfPath(se.X) != ctxName || len(ce.Args) != 1 {
			return true
		}
		v := g.constOf(ce.Args[0])
		if v == nil || v.Kind() != constant.String {
			die("config: %s: ctx.%s with a non-constant flag name", g.pos(ce), se.Sel.Name)
		}
		out = append(out, cfRef{se.Sel.Name, constant.StringVal(v)})
		return true
	})
	return out
}

func cfUniqRefs(rs []cfRef) []cfRef {
	seen := map[cfRef]bool{}
	var out []cfRef
	for _, r := range rs {
		if !seen[r] {
			seen[r] = true
			out = append(out, r)
		}
	}
	return out
}

func (g *cfGen) emitWiring(w *bytes.Buffer) {
	get := g.p.findFunc("", "get")
	nfa := g.p.findFunc("", "newFromArgs")
	ctxName := get.Type.Params.List[0].Names[0].Name
	// newFromArgs: parameter -> Config field
	var pnames []string
	for _, f := range nfa.Type.Params.List {
		for _, n := range f.Names {
			pnames = append(pnames, n.Name)
		}
	}
	fieldOf := map[string]string{}
	ast.Inspect(nfa.Body, func(n ast.Node) bool {
		cl, ok := n.(*ast.CompositeLit)
		if !ok || cfPath(cl.Type) != "Config" {
			return true
		}
		for _, el := range cl.Elts {
			kv := el.(*ast.KeyValueExpr)
			if id, ok := kv.Value.(*ast.Ident); ok {
				if old, dup := fieldOf[id.Name]; dup {
					die("config: newFromArgs stores %s in both %s and %s", id.Name, old, kv.Key.(*ast.Ident).Name)
				}
				fieldOf[id.Name] = kv.Key.(*ast.Ident).Name
			}
		}
		return false
	})
	// get: locals
	type local struct {
		refs     []cfRef          // flags read by any statement that assigns the variable (or guards such a statement)
		fields   map[string]cfRef // struct-literal field -> the single flag it is read from
		forder   []string
		trigger  []cfRef
		isStruct bool
	}
	locals := map[string]*local{}
	loc := func(n string) *local {
		if locals[n] == nil {
			locals[n] = &local{fields: map[string]cfRef{}}
		}
		return locals[n]
	}
	var walk func(ss []ast.Stmt, conds []cfRef)
	walk = func(ss []ast.Stmt, conds []cfRef) {
		for _, s := range ss {
			switch x := s.(type) {
			case *ast.AssignStmt:
				for i, l := range x.Lhs {
					id, ok := l.(*ast.Ident)
					if !ok || id.Name == "_" || id.Name == "err" {
						continue
					}
					rhs := x.Rhs[0]
					if len(x.Rhs) == len(x.Lhs) {
						rhs = x.Rhs[i]
					}
					lc := loc(id.Name)
					if ue, ok := rhs.(*ast.UnaryExpr); ok && ue.Op == token.AND {
						if cl, ok := ue.X.(*ast.CompositeLit); ok {
							lc.isStruct = true
							lc.trigger = append(lc.trigger, conds...)
							for _, el := range cl.Elts {
								kv := el.(*ast.KeyValueExpr)
								k := kv.Key.(*ast.Ident).Name
								rs := g.ctxRefs(kv.Value, ctxName)
								if vid, ok := kv.Value.(*ast.Ident); ok && locals[vid.Name] != nil {
									rs = cfUniqRefs(locals[vid.Name].refs)
								}
								if len(rs) != 1 {
									die("config: %s: field %s of the %s literal is not read from exactly one flag", g.pos(kv), k, id.Name)
								}
								lc.fields[k] = rs[0]
								lc.forder = append(lc.forder, k)
							}
							continue
						}
					}
					if x.Tok == token.DEFINE {
						lc.refs = nil // a new variable of that name
					}
					lc.refs = append(lc.refs, conds...)
					lc.refs = append(lc.refs, g.ctxRefs(rhs, ctxName)...)
				}
			case *ast.IfStmt:
				c := append(append([]cfRef{}, conds...), g.ctxRefs(x.Cond, ctxName)...)
				walk(x.Body.List, c)
				switch e := x.Else.(type) {
				case *ast.BlockStmt:
					walk(e.List, c)
				case *ast.IfStmt:
					walk([]ast.Stmt{e}, c)
				}
			}
		}
	}
	walk(get.Body.List, nil)
	var call *ast.CallExpr
	ast.Inspect(get.Body, func(n ast.Node) bool {
		if ce, ok := n.(*ast.CallExpr); ok && cfCallee(ce) == "newFromArgs" {
			call = ce
		}
		return true
	})
	if call == nil || len(call.Args) != len(pnames) {
		die("config: get does not call newFromArgs with %d arguments", len(pnames))
	}
	var direct, derived, triggers []string
	for i, a := range call.Args {
		field, ok := fieldOf[pnames[i]]
		if !ok {
			die("config: newFromArgs does not store its parameter %s in a Config field", pnames[i])
		}
		if id, ok := a.(*ast.Ident); ok {
			lc := locals[id.Name]
			if lc == nil {
				die("config: %s: argument %s of newFromArgs is not a local of get", g.pos(a), id.Name)
			}
			if lc.isStruct {
				for _, r := range cfUniqRefs(lc.trigger) {
					triggers = append(triggers, fmt.Sprintf("(%s, %s)", coqString(field), coqString(r.flag)))
				}
				for _, k := range lc.forder {
					r := lc.fields[k]
					direct = append(direct, fmt.Sprintf("(%s, %s, %s)", coqString(field+"."+k), coqString(r.acc), coqString(r.flag)))
				}
				continue
			}
			var rs []string
			for _, r := range cfUniqRefs(lc.refs) {
				rs = append(rs, fmt.Sprintf("(%s, %s)", coqString(r.acc), coqString(r.flag)))
			}
			derived = append(derived, fmt.Sprintf("(%s, [%s])", coqString(field), strings.Join(rs, "; ")))
			continue
		}
		rs := g.ctxRefs(a, ctxName)
		if _, isCall := a.(*ast.CallExpr); !isCall || len(rs) != 1 {
			die("config: %s: argument %d of newFromArgs is neither a local nor a single ctx read", g.pos(a), i)
		}
		direct = append(direct, fmt.Sprintf("(%s, %s, %s)", coqString(field), coqString(rs[0].acc), coqString(rs[0].flag)))
	}
	// flags read before anything else (config_file)
	w.WriteString("(* config.go get -> newFromArgs: (Config field path, ctx accessor, flag) for every field fed by exactly one flag *)\n")
	fmt.Fprintf(w, "Definition flag_wiring : list (string * string * string) := [\n  %s\n].\n", strings.Join(direct, ";\n  "))
	w.WriteString("(* fields computed from several flags: (field, [(accessor, flag)]) *)\n")
	fmt.Fprintf(w, "Definition derived_wiring : list (string * list (string * string)) := [\n  %s\n].\n", strings.Join(derived, ";\n  "))
	w.WriteString("(* a section is created when this flag is not empty: (Config field, flag) *)\n")
	fmt.Fprintf(w, "Definition section_triggers : list (string * string) := [\n  %s\n].\n", strings.Join(triggers, ";\n  "))
	var all []string
	for _, r := range cfUniqRefs(g.ctxRefs(get.Body, ctxName)) {
		all = append(all, fmt.Sprintf("(%s, %s)", coqString(r.acc), coqString(r.flag)))
	}
	fmt.Fprintf(w, "(* every ctx read in get: (accessor, flag) *)\nDefinition get_reads : list (string * string) := [\n  %s\n].\n\n", strings.Join(all, ";\n  "))
}

// ---------------------------------------------------------------------------------------------

const cfPrelude = `Module GC.

Inductive kind := KString | KInt | KInt64 | KBool | KDuration | KFloatList | KIntPtr | KURL.
(* VD: a time.Duration in nanoseconds.  VL: a []float64 in thousandths. *)
Inductive value := VS (s : string) | VI (z : Z) | VB (b : bool) | VD (z : Z) | VL (l : list Z).

Definition bind {A B} (r : result A) (k : A -> result B) : result B :=
  match r with Ok a => k a | Err e => Err e | Panic s => Panic s | Hang s => Hang s end.
Definition is_some {A} (o : option A) : bool := match o with Some _ => true | None => false end.
(* s[n:] *)
Fixpoint str_drop_nat (n : nat) (s : string) : string :=
  match n, s with O, _ => s | S m, String _ t => str_drop_nat m t | S _, EmptyString => EmptyString end.
Definition str_drop (n : Z) (s : string) : string := str_drop_nat (Z.to_nat n) s.
(* the set-membership loop ` + "`for _, v := range l { if seen[v] { return err }; seen[v] = true }`" + ` returns iff has_dup l *)
Fixpoint has_dup (l : list Z) : bool :=
  match l with [] => false | x :: t => existsb (Z.eqb x) t || has_dup t end.

`

func genConfig(out string) {
	p := load("config")
	g := &cfGen{p: p, structs: map[string]*cfStruct{}, setters: map[string]bool{}}
	g.addStruct("YamlConfig")

	// translate first: this decides which setters are needed
	var fns bytes.Buffer
	g.translate(&fns, "URLBackendConfig_validate", "URLBackendConfig", "validate", 100, false)
	g.translate(&fns, "validateConfig", "", "validateConfig", 0, true)
	g.translate(&fns, "newFromArgs", "", "newFromArgs", 400, false)
	g.translate(&fns, "get", "", "get", 300, false)
	g.translate(&fns, "NewFromYaml", "", "NewFromYaml", 200, false)

	var w bytes.Buffer
	w.WriteString(header)
	w.WriteString(cfPrelude)
	g.emitRecords(&w)
	g.emitSetters(&w)
	g.emitYamlTable(&w)
	g.emitFlatten(&w)
	emitFlags(&w, g.flags())
	g.emitWiring(&w)
	g.emitUnmarshal(&w)

	for _, name := range []string{"defaultDurationBuckets"} {
		xs := g.pkgFloats(name)
		if xs == nil {
			die("config: var %s not found", name)
		}
		fmt.Fprintf(&w, "Definition pkgvar_%s : option (list Z) := Some [%s].\n", name, strings.Join(xs, "; "))
	}
	fmt.Fprintf(&w, "Definition s3proxy_auth_methods : list string := [%s].\n", strings.Join(cfStringList("cache/s3proxy", "GetAuthMethods"), "; "))
	fmt.Fprintf(&w, "Definition azblobproxy_auth_methods : list string := [%s].\n", strings.Join(cfStringList("cache/azblobproxy", "GetAuthMethods"), "; "))
	fmt.Fprintf(&w, "Definition src_IsValidAuthMethod_s3proxy : string :=\n  %s.\n", coqString(cfSrcText(load("cache/s3proxy"), load("cache/s3proxy").findFunc("", "IsValidAuthMethod"))))
	fmt.Fprintf(&w, "Definition src_IsValidAuthMethod_azblobproxy : string :=\n  %s.\n", coqString(cfSrcText(load("cache/azblobproxy"), load("cache/azblobproxy").findFunc("", "IsValidAuthMethod"))))
	fmt.Fprintf(&w, "Definition src_URLBackendConfig_UnmarshalYAML : string :=\n  %s.\n\n", coqString(cfSrcText(p, p.findFunc("URLBackendConfig", "UnmarshalYAML"))))

	w.WriteString(`(* the cli context: the value of a flag read through each accessor *)
Record Ctx := mkCtx {
  Ctx_String : string -> string;
  Ctx_Int : string -> Z;
  Ctx_Int64 : string -> Z;
  Ctx_Bool : string -> bool;
  Ctx_Duration : string -> Z }.

(* library functions and file access used by the translated code *)
Record Ext := mkExt {
  net_SplitHostPort : string -> option (string * string);
  net_JoinHostPort : string -> string -> string;
  strconv_Itoa : Z -> string;
  url_Parse : string -> option URL;
  s3proxy_IsValidAuthMethod : string -> bool;
  azblobproxy_IsValidAuthMethod : string -> bool;
  sort_Float64s : list Z -> list Z;
  yaml_Unmarshal : YamlData -> YamlConfig -> option YamlConfig;
  newFromYamlFile : string -> result Config }.

`)
	w.Write(fns.Bytes())

	w.WriteString("(* the literal text (up to the first formatting verb) of every error return, by code *)\n")
	w.WriteString("Definition error_messages : list (Z * string * string) := [\n")
	sort.SliceStable(g.errs, func(i, j int) bool { return g.errs[i].code < g.errs[j].code })
	for i, e := range g.errs {
		sep := ";"
		if i == len(g.errs)-1 {
			sep = ""
		}
		fmt.Fprintf(&w, "  (%d, %s, %s)%s\n", e.code, coqString(e.fn), coqString(e.msg), sep)
	}
	w.WriteString("].\n\nEnd GC.\n")
	writeIfChanged(filepath.Join(out, "Config.v"), w.Bytes())
}
