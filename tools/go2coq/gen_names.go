package main

import (
	"bytes"
	"fmt"
	"go/ast"
	"go/printer"
	"go/token"
	"path/filepath"
	"strconv"
	"strings"
)

// Gen/Names.v: the string literals that decide file names in the cache directory and object /
// resource names in the proxy backends, per function and per syntactic role, in source order:
//
//	_concat   operands of + and +=            (hash+"-"+random, dest += ".v1", name + "-112233")
//	_joinfmt  literal arguments of path.Join / filepath.Join / fmt.Sprintf
//	_prefix   second argument of strings.HasPrefix
//	_assign   literals assigned to a variable (lookupKeyPrefix = "cas/", template := "blobs/%s/%d")
//	_cmp      literals compared with == or !=
//	_case     literals in case clauses
//	_trim     second argument of strings.TrimRight
//
// Bridge/Bridge_Names.v pins every list to the literals of Model/Names.v and Model/Load.v.
func init() { areas = append(areas, genNames) }

type litRoles struct {
	role map[string][]string
}

func stringLit(e ast.Expr) (string, bool) {
	bl, ok := e.(*ast.BasicLit)
	if !ok || bl.Kind != token.STRING {
		return "", false
	}
	s, err := strconv.Unquote(bl.Value)
	if err != nil {
		die("cannot unquote %s", bl.Value)
	}
	return s, true
}

func callName(ce *ast.CallExpr) string {
	se, ok := ce.Fun.(*ast.SelectorExpr)
	if !ok {
		return ""
	}
	x, ok := se.X.(*ast.Ident)
	if !ok {
		return ""
	}
	return x.Name + "." + se.Sel.Name
}

func collectLits(fd *ast.FuncDecl) litRoles {
	c := litRoles{role: map[string][]string{}}
	add := func(role string, e ast.Expr) {
		if s, ok := stringLit(e); ok {
			c.role[role] = append(c.role[role], s)
		}
	}
	ast.Inspect(fd.Body, func(n ast.Node) bool {
		switch x := n.(type) {
		case *ast.BinaryExpr:
			switch x.Op {
			case token.ADD:
				add("concat", x.X)
				add("concat", x.Y)
			case token.EQL, token.NEQ:
				add("cmp", x.X)
				add("cmp", x.Y)
			}
		case *ast.AssignStmt:
			for _, r := range x.Rhs {
				switch x.Tok {
				case token.ADD_ASSIGN:
					add("concat", r)
				case token.ASSIGN, token.DEFINE:
					add("assign", r)
				}
			}
		case *ast.CallExpr:
			switch callName(x) {
			case "path.Join", "filepath.Join", "fmt.Sprintf":
				for _, a := range x.Args {
					add("joinfmt", a)
				}
			case "strings.HasPrefix":
				if len(x.Args) == 2 {
					add("prefix", x.Args[1])
				}
			case "strings.TrimRight":
				if len(x.Args) == 2 {
					add("trim", x.Args[1])
				}
			}
		case *ast.CaseClause:
			for _, e := range x.List {
				add("case", e)
			}
		}
		return true
	})
	return c
}

func namesEmitStringList(w *bytes.Buffer, name string, xs []string) {
	var qs []string
	for _, x := range xs {
		qs = append(qs, coqString(x))
	}
	fmt.Fprintf(w, "Definition %s : list string := [%s].\n", name, strings.Join(qs, "; "))
}

// source text of a node, white space collapsed
func nodeText(p *pkg, n ast.Node) string {
	var b bytes.Buffer
	if err := printer.Fprint(&b, p.fset, n); err != nil {
		die("cannot print node: %v", err)
	}
	return strings.Join(strings.Fields(b.String()), " ")
}

// does the expression mention a selector .<name> ?
func mentionsSel(e ast.Node, name string) bool {
	found := false
	ast.Inspect(e, func(n ast.Node) bool {
		if se, ok := n.(*ast.SelectorExpr); ok && se.Sel.Name == name {
			found = true
		}
		return true
	})
	return found
}

// The statements that decide in which order existing files enter the index at start-up:
//   - every statement of scanDir that assigns to a `.ts` field (the sort key of a scanned file);
//   - the body of scanResult.Less (the comparison) and of scanResult.Swap;
//   - in loadExistingFiles: the sort call(s) and the loop that calls c.lru.Add.
func genLoadOrder(w *bytes.Buffer) {
	p := load("cache/disk")
	scan := p.findFunc("diskCache", "scanDir")
	var ts []string
	ast.Inspect(scan.Body, func(n ast.Node) bool {
		if as, ok := n.(*ast.AssignStmt); ok {
			for _, l := range as.Lhs {
				if mentionsSel(l, "ts") {
					ts = append(ts, nodeText(p, as))
					break
				}
			}
		}
		return true
	})
	fmt.Fprintf(w, "(* %s: scanDir, assignments to the sort key *)\n", p.fset.Position(scan.Pos()).String()[len(repo)+1:])
	namesEmitStringList(w, "scanDir_ts_assign", ts)
	less := p.findFunc("scanResult", "Less")
	swap := p.findFunc("scanResult", "Swap")
	fmt.Fprintf(w, "Definition scanResult_Less_body : string := %s.\n", coqString(nodeText(p, less.Body)))
	fmt.Fprintf(w, "Definition scanResult_Swap_body : string := %s.\n", coqString(nodeText(p, swap.Body)))
	lef := p.findFunc("diskCache", "loadExistingFiles")
	var sorts, loops []string
	ast.Inspect(lef.Body, func(n ast.Node) bool {
		switch x := n.(type) {
		case *ast.CallExpr:
			if strings.HasPrefix(callName(x), "sort.") || strings.HasPrefix(callName(x), "slices.") {
				sorts = append(sorts, nodeText(p, x))
			}
		case *ast.ForStmt:
			if mentionsSel(x.Body, "Add") {
				loops = append(loops, nodeText(p, x))
			}
		case *ast.RangeStmt:
			if mentionsSel(x.Body, "Add") {
				loops = append(loops, nodeText(p, x))
			}
		}
		return true
	})
	// getElementPath: how the path of an indexed entry (to unlink on eviction / refusal) is built
	gep := p.findFunc("diskCache", "getElementPath")
	var rets []string
	ast.Inspect(gep.Body, func(n ast.Node) bool {
		if rs, ok := n.(*ast.ReturnStmt); ok {
			rets = append(rets, nodeText(p, rs))
		}
		return true
	})
	namesEmitStringList(w, "getElementPath_return", rets)
	namesEmitStringList(w, "loadExistingFiles_sort", sorts)
	namesEmitStringList(w, "loadExistingFiles_add_loop", loops)
}

func genNames(out string) {
	var w bytes.Buffer
	w.WriteString(header)
	type item struct {
		dir, recv, fn, coq string
		roles            []string // roles that must be present (emitted even when empty)
	}
	items := []item{
		{"cache", "", "LookupKey", "LookupKey", []string{"concat"}},
		{"cache/disk", "diskCache", "FileLocation", "FileLocation", []string{"joinfmt", "concat"}},
		{"cache/disk", "diskCache", "FileLocationBase", "FileLocationBase", []string{"joinfmt"}},
		{"cache/disk", "diskCache", "getElementPath", "getElementPath", []string{"prefix"}},
		{"cache/disk", "", "migrateDirectory", "migrateDirectory", []string{"concat"}},
		{"cache/disk", "", "migrateV1Subdir", "migrateV1Subdir", []string{"concat"}},
		{"cache/disk", "diskCache", "scanDir", "scanDir", []string{"prefix", "assign", "cmp"}},
		{"cache/s3proxy", "", "objectKeyV1", "s3_objectKeyV1", []string{"joinfmt", "cmp"}},
		{"cache/s3proxy", "", "objectKeyV2", "s3_objectKeyV2", []string{"joinfmt", "cmp"}},
		{"cache/azblobproxy", "", "objectKeyV1", "az_objectKeyV1", []string{"joinfmt", "cmp"}},
		{"cache/azblobproxy", "", "objectKeyV2", "az_objectKeyV2", []string{"joinfmt", "cmp"}},
		{"cache/azblobproxy", "azBlobCache", "Get", "az_Get", []string{"concat"}},
		{"cache/azblobproxy", "azBlobCache", "Contains", "az_Contains", []string{"concat"}},
		{"cache/azblobproxy", "azBlobCache", "UploadFile", "az_UploadFile", []string{"concat"}},
		{"cache/httpproxy", "", "New", "http_New", []string{"joinfmt", "case", "trim"}},
		{"cache/grpcproxy", "remoteGrpcProxyCache", "UploadFile", "grpc_UploadFile", []string{"assign"}},
		{"cache/grpcproxy", "remoteGrpcProxyCache", "Get", "grpc_Get", []string{"assign"}},
	}
	for _, it := range items {
		p := load(it.dir)
		fd := p.findFunc(it.recv, it.fn)
		c := collectLits(fd)
		fmt.Fprintf(&w, "(* %s: %s *)\n", p.fset.Position(fd.Pos()).String()[len(repo)+1:], it.fn)
		for _, r := range it.roles {
			namesEmitStringList(&w, it.coq+"_"+r, c.role[r])
		}
	}
	genLoadOrder(&w)
	writeIfChanged(filepath.Join(out, "Names.v"), w.Bytes())
}
