package main

// Statement-level translation of utils/validate/action_result.go into Gallina: Gen/ValidateSrc.v.
//
// ActionResult and maybeNilDigest are translated statement by statement from the AST into functions
// over the message types of Model/ActionResult.v (run-time: Model/GoValidate.v):
//
//   *pb.M                       option pb_M                (nil = None)
//   []*pb.M                     list (option pb_M)
//   x.F  (x a *pb.M)            p <- deref v_x "<func>: x.F";; ... (pb_M_F p) ...
//                               every selection through a pointer is a deref of its own, whether or
//                               not a nil check precedes it: a missing check evaluates to Panic
//   x == nil / x != nil         is_nil v_x / negb (is_nil v_x)
//   strings.HasPrefix(a, b)     strings_HasPrefix a b
//   re.MatchString(s)           m <- regexp_MatchString ValidateSrc_re_<re> s;;   (pattern text emitted)
//   y = f(a) / y := f(a)        v_y <- ValidateSrc_f a;;   for a translated f
//   if c { A } [else { B }]; K  if c then A[;K] else B[;K]  (K copied into branches that do not return)
//   for _, x := range e { B }   range_loop e (fun v_x <assigned outer locals> => B) <those locals>
//   return nil                  Ok None
//   return errX                 raise <E>_of_msg "<text of errX = fmt.Errorf("text")>"
//   return fmt.Errorf("t", a..) (arguments evaluated for their derefs) raise <E>_of_msg "t"
//
// The KIND of a protobuf field (string, int64, bool, *Message, []*Message) is read from the struct
// declarations of the imported genproto package; nothing about the functions themselves (which
// loops, which checks, which order, which field, which error) is known to this file.  Anything
// outside the subset stops the translation with the position and the text of the construct:
// ValidateSrc.v then only holds the reason, Proofs/Validate_refine.v does not compile, and the check
// reports the obligation as broken.  Nothing is skipped.

import (
	"bytes"
	"fmt"
	"go/ast"
	"go/constant"
	"go/parser"
	"go/token"
	"go/types"
	"os"
	"path/filepath"
	"strconv"
	"strings"
)

func init() { areas = append(areas, genValidate) }

// the translated functions, callees first, with the error enumeration of Model/ActionResult.v each
// one returns and the lookup (Model/GoValidate.v) from an error text to its constructor
var valFuncs = []struct{ name, enum, lookup string }{
	{"maybeNilDigest", "derr", "derr_of_msg"},
	{"ActionResult", "verr", "verr_of_msg"},
}

type valUnsupported string

func valDie(format string, a ...interface{}) { panic(valUnsupported(fmt.Sprintf(format, a...))) }

// ---------------------------------------------------------------------------------------------
// types

type valKind int

const (
	vkOther valKind = iota
	vkString
	vkInt // int64
	vkBool
	vkErr   // error; enum = the Coq enumeration of its values
	vkPtr   // *pb.<msg>
	vkSlice // []elem
	vkNil   // the literal nil
)

type valType struct {
	k    valKind
	msg  string
	elem *valType
	enum string
	text string // Go text, for messages
}

func (t *valType) String() string {
	switch t.k {
	case vkString:
		return "string"
	case vkInt:
		return "int64"
	case vkBool:
		return "bool"
	case vkErr:
		return "error"
	case vkPtr:
		return "*" + t.msg
	case vkSlice:
		return "[]" + t.elem.String()
	case vkNil:
		return "nil"
	}
	return t.text
}

func (t *valType) coq(at string) string {
	switch t.k {
	case vkString:
		return "string"
	case vkInt:
		return "Z"
	case vkBool:
		return "bool"
	case vkErr:
		if t.enum != "" {
			return "option " + t.enum
		}
	case vkPtr:
		return "option pb_" + t.msg
	case vkSlice:
		return "list (" + t.elem.coq(at) + ")"
	}
	valDie("%s: no Coq type for the Go type %s", at, t)
	return ""
}

func valSameType(a, b *valType) bool {
	if a.k != b.k {
		return false
	}
	switch a.k {
	case vkPtr:
		return a.msg == b.msg
	case vkSlice:
		return valSameType(a.elem, b.elem)
	case vkErr:
		return a.enum == b.enum
	case vkOther:
		return false
	}
	return true
}

// the protobuf messages of one imported genproto package: message -> field -> type
type valSchema struct {
	aliases map[string]string // import name -> directory under the repository
	msgs    map[string]map[string]*valType
}

func valModulePath() string {
	data, err := os.ReadFile(filepath.Join(repo, "go.mod"))
	if err != nil {
		valDie("go.mod: %v", err)
	}
	for _, ln := range strings.Split(string(data), "\n") {
		f := strings.Fields(ln)
		if len(f) == 2 && f[0] == "module" {
			return f[1]
		}
	}
	valDie("go.mod: no module line")
	return ""
}

// the kind of a type expression, written inside the genproto package (inPb) or in the translated file,
// where messages are <import name>.<Message>
func (s *valSchema) typeOf(e ast.Expr, inPb bool, text string) *valType {
	switch x := e.(type) {
	case *ast.Ident:
		switch x.Name {
		case "string":
			return &valType{k: vkString}
		case "int64":
			return &valType{k: vkInt}
		case "bool":
			return &valType{k: vkBool}
		case "error":
			return &valType{k: vkErr}
		}
	case *ast.StarExpr:
		if inPb {
			if id, ok := x.X.(*ast.Ident); ok {
				return &valType{k: vkPtr, msg: id.Name}
			}
		} else if se, ok := x.X.(*ast.SelectorExpr); ok {
			if id, ok := se.X.(*ast.Ident); ok {
				if _, isPb := s.aliases[id.Name]; isPb {
					return &valType{k: vkPtr, msg: se.Sel.Name}
				}
			}
		}
	case *ast.ArrayType:
		if x.Len == nil {
			el := s.typeOf(x.Elt, inPb, text)
			if el.k != vkOther {
				return &valType{k: vkSlice, elem: el}
			}
		}
	}
	return &valType{k: vkOther, text: text}
}

func valLoadSchema(p *pkg, file *ast.File) *valSchema {
	s := &valSchema{aliases: map[string]string{}, msgs: map[string]map[string]*valType{}}
	mod := valModulePath()
	for _, im := range file.Imports {
		path, err := strconv.Unquote(im.Path.Value)
		if err != nil || !strings.HasPrefix(path, mod+"/genproto/") {
			continue
		}
		if im.Name == nil {
			valDie("%s: genproto import without a name", p.fset.Position(im.Pos()))
		}
		s.aliases[im.Name.Name] = strings.TrimPrefix(path, mod+"/")
	}
	if len(s.aliases) != 1 {
		valDie("%s: expected exactly one genproto import, found %d", p.fset.Position(file.Pos()), len(s.aliases))
	}
	for _, dir := range s.aliases {
		fset := token.NewFileSet()
		pkgs, err := parser.ParseDir(fset, filepath.Join(repo, dir), func(fi os.FileInfo) bool {
			return strings.HasSuffix(fi.Name(), ".pb.go") && !strings.HasSuffix(fi.Name(), "_grpc.pb.go")
		}, 0)
		if err != nil {
			valDie("parse %s: %v", dir, err)
		}
		for _, pp := range pkgs {
			for _, f := range pp.Files {
				for _, d := range f.Decls {
					gd, ok := d.(*ast.GenDecl)
					if !ok || gd.Tok != token.TYPE {
						continue
					}
					for _, sp := range gd.Specs {
						ts := sp.(*ast.TypeSpec)
						st, ok := ts.Type.(*ast.StructType)
						if !ok {
							continue
						}
						fields := map[string]*valType{}
						for _, fl := range st.Fields.List {
							for _, n := range fl.Names {
								if !n.IsExported() {
									continue
								}
								fields[n.Name] = s.typeOf(fl.Type, true, types.ExprString(fl.Type))
							}
						}
						s.msgs[ts.Name.Name] = fields
					}
				}
			}
		}
	}
	return s
}

// ---------------------------------------------------------------------------------------------
// the translator

type valFn struct {
	name, enum, lookup string
	fd                 *ast.FuncDecl
	params             []*valType
	done               bool
}

type valEnv map[string]*valType

func (e valEnv) clone() valEnv {
	n := valEnv{}
	for k, v := range e {
		n[k] = v
	}
	return n
}

type valTr struct {
	p       *pkg
	sch     *valSchema
	f       *valFn
	funcs   map[string]*valFn
	regexes map[string]string
	usedRe  []string
	fresh   int
}

type valCtx struct {
	inLoop bool
	state  []string // outer locals the enclosing loop body assigns
}

func (t *valTr) pos(n ast.Node) string {
	return strings.TrimPrefix(t.p.fset.Position(n.Pos()).String(), repo+"/")
}

func (t *valTr) tmp() string {
	t.fresh++
	return fmt.Sprintf("p%d", t.fresh)
}

func (t *valTr) pkgNameOf(id *ast.Ident) string {
	if pn, ok := t.p.info.Uses[id].(*types.PkgName); ok {
		return pn.Imported().Path()
	}
	return ""
}

// (binds, term, type): the binds are `x <- r` steps to run, in evaluation order, before term is used
func (t *valTr) expr(e ast.Expr, env valEnv) ([]string, string, *valType) {
	if tv, ok := t.p.info.Types[e]; ok && tv.Value != nil {
		switch tv.Value.Kind() {
		case constant.String:
			return nil, valCoqText(constant.StringVal(tv.Value)), &valType{k: vkString}
		case constant.Int:
			return nil, coqZ(tv.Value.ExactString()), &valType{k: vkInt}
		case constant.Bool:
			return nil, strconv.FormatBool(constant.BoolVal(tv.Value)), &valType{k: vkBool}
		}
	}
	switch x := e.(type) {
	case *ast.ParenExpr:
		return t.expr(x.X, env)
	case *ast.BasicLit:
		switch x.Kind {
		case token.STRING:
			s, err := strconv.Unquote(x.Value)
			if err != nil {
				valDie("%s: string literal %s", t.pos(e), x.Value)
			}
			return nil, valCoqText(s), &valType{k: vkString}
		case token.INT:
			if _, err := strconv.ParseInt(x.Value, 0, 64); err != nil {
				valDie("%s: integer literal %s", t.pos(e), x.Value)
			}
			return nil, coqZ(x.Value), &valType{k: vkInt}
		}
	case *ast.Ident:
		if ty, ok := env[x.Name]; ok {
			return nil, "v_" + x.Name, ty
		}
		switch x.Name {
		case "nil":
			return nil, "None", &valType{k: vkNil}
		case "true", "false":
			return nil, x.Name, &valType{k: vkBool}
		}
		valDie("%s: identifier %s is not a local of the translated function", t.pos(e), x.Name)
	case *ast.SelectorExpr:
		binds, base, bt := t.expr(x.X, env)
		if bt.k != vkPtr {
			valDie("%s: selection %s from a value of type %s", t.pos(e), t.p.nodeText(e), bt)
		}
		fields, ok := t.sch.msgs[bt.msg]
		if !ok {
			valDie("%s: %s is not a message of the genproto package", t.pos(e), bt.msg)
		}
		ft, ok := fields[x.Sel.Name]
		if !ok {
			valDie("%s: message %s has no field %s (a method call?)", t.pos(e), bt.msg, x.Sel.Name)
		}
		if ft.k == vkOther {
			valDie("%s: field %s.%s has the unsupported type %s", t.pos(e), bt.msg, x.Sel.Name, ft)
		}
		n := t.tmp()
		binds = append(binds, fmt.Sprintf("%s <- deref %s %s", n, base, valCoqText(t.f.name+": "+t.p.nodeText(e))))
		return binds, fmt.Sprintf("(pb_%s_%s %s)", bt.msg, x.Sel.Name, n), ft
	case *ast.UnaryExpr:
		if x.Op == token.NOT {
			binds, a, ty := t.expr(x.X, env)
			if ty.k != vkBool {
				valDie("%s: ! applied to %s", t.pos(e), ty)
			}
			return binds, "(negb " + a + ")", ty
		}
	case *ast.BinaryExpr:
		return t.binary(x, env)
	case *ast.CallExpr:
		return t.call(x, env)
	}
	valDie("%s: unsupported expression %s", t.pos(e), t.p.nodeText(e))
	return nil, "", nil
}

func (t *valTr) binary(x *ast.BinaryExpr, env valEnv) ([]string, string, *valType) {
	ba, a, ta := t.expr(x.X, env)
	bb, b, tb := t.expr(x.Y, env)
	boolT := &valType{k: vkBool}
	switch x.Op {
	case token.LAND, token.LOR:
		if ta.k != vkBool || tb.k != vkBool {
			valDie("%s: %s on %s and %s", t.pos(x), x.Op, ta, tb)
		}
		if len(bb) > 0 {
			valDie("%s: the right operand of %s can panic or has an effect (%s): short-circuit evaluation is not translated", t.pos(x), x.Op, t.p.nodeText(x.Y))
		}
		op := "&&"
		if x.Op == token.LOR {
			op = "||"
		}
		return ba, fmt.Sprintf("(%s %s %s)", a, op, b), boolT
	}
	binds := append(append([]string{}, ba...), bb...)
	neg := func(s string) string { return "(negb " + s + ")" }
	switch x.Op {
	case token.EQL, token.NEQ:
		var c string
		switch {
		case tb.k == vkNil && (ta.k == vkPtr || ta.k == vkErr):
			c = "(is_nil " + a + ")"
		case ta.k == vkNil && (tb.k == vkPtr || tb.k == vkErr):
			c = "(is_nil " + b + ")"
		case ta.k == vkString && tb.k == vkString:
			c = fmt.Sprintf("(String.eqb %s %s)", a, b)
		case ta.k == vkInt && tb.k == vkInt:
			c = fmt.Sprintf("(%s =? %s)", a, b)
		case ta.k == vkBool && tb.k == vkBool:
			c = fmt.Sprintf("(Bool.eqb %s %s)", a, b)
		default:
			valDie("%s: comparison %s of %s with %s", t.pos(x), t.p.nodeText(x), ta, tb)
		}
		if x.Op == token.NEQ {
			c = neg(c)
		}
		return binds, c, boolT
	case token.LSS, token.LEQ, token.GTR, token.GEQ:
		if ta.k != vkInt || tb.k != vkInt {
			valDie("%s: ordering %s of %s with %s", t.pos(x), t.p.nodeText(x), ta, tb)
		}
		op := map[token.Token]string{token.LSS: "<?", token.LEQ: "<=?", token.GTR: ">?", token.GEQ: ">=?"}[x.Op]
		return binds, fmt.Sprintf("(%s %s %s)", a, op, b), boolT
	}
	valDie("%s: unsupported operator in %s", t.pos(x), t.p.nodeText(x))
	return nil, "", nil
}

func (t *valTr) call(x *ast.CallExpr, env valEnv) ([]string, string, *valType) {
	if x.Ellipsis != token.NoPos {
		valDie("%s: variadic call %s", t.pos(x), t.p.nodeText(x))
	}
	var binds []string
	var args []string
	var tys []*valType
	evalArgs := func() {
		for _, a := range x.Args {
			b, s, ty := t.expr(a, env)
			binds = append(binds, b...)
			args = append(args, s)
			tys = append(tys, ty)
		}
	}
	switch fun := x.Fun.(type) {
	case *ast.Ident:
		// a translated function of this package
		if _, shadowed := env[fun.Name]; shadowed {
			break
		}
		f, ok := t.funcs[fun.Name]
		if !ok {
			break
		}
		if !f.done {
			valDie("%s: call of %s before its translation (recursion is not supported)", t.pos(x), fun.Name)
		}
		evalArgs()
		if len(args) != len(f.params) {
			valDie("%s: %s called with %d arguments", t.pos(x), fun.Name, len(args))
		}
		for i, ty := range tys {
			if !(valSameType(ty, f.params[i]) || (ty.k == vkNil && f.params[i].k == vkPtr)) {
				valDie("%s: argument %d of %s has type %s, the parameter %s", t.pos(x), i+1, fun.Name, ty, f.params[i])
			}
		}
		n := t.tmp()
		binds = append(binds, fmt.Sprintf("%s <- ValidateSrc_%s %s", n, fun.Name, strings.Join(args, " ")))
		return binds, n, &valType{k: vkErr, enum: f.enum}
	case *ast.SelectorExpr:
		id, ok := fun.X.(*ast.Ident)
		if !ok {
			break
		}
		if _, local := env[id.Name]; local {
			break
		}
		// strings.HasPrefix
		if t.pkgNameOf(id) == "strings" && fun.Sel.Name == "HasPrefix" && len(x.Args) == 2 {
			evalArgs()
			if tys[0].k != vkString || tys[1].k != vkString {
				valDie("%s: strings.HasPrefix on %s, %s", t.pos(x), tys[0], tys[1])
			}
			return binds, fmt.Sprintf("(strings_HasPrefix %s %s)", args[0], args[1]), &valType{k: vkBool}
		}
		// <package-level regexp>.MatchString(s)
		if _, isRe := t.regexes[id.Name]; isRe && t.pkgNameOf(id) == "" && fun.Sel.Name == "MatchString" && len(x.Args) == 1 {
			evalArgs()
			if tys[0].k != vkString {
				valDie("%s: MatchString on %s", t.pos(x), tys[0])
			}
			seen := false
			for _, u := range t.usedRe {
				seen = seen || u == id.Name
			}
			if !seen {
				t.usedRe = append(t.usedRe, id.Name)
			}
			n := t.tmp()
			binds = append(binds, fmt.Sprintf("%s <- regexp_MatchString ValidateSrc_re_%s %s", n, id.Name, args[0]))
			return binds, n, &valType{k: vkBool}
		}
	}
	valDie("%s: unsupported call %s", t.pos(x), t.p.nodeText(x))
	return nil, "", nil
}

// the text of a package-level `var name = fmt.Errorf("text")` / errors.New("text")
func (t *valTr) errVarText(name string, at ast.Node) string {
	for _, f := range t.p.files {
		for _, d := range f.Decls {
			gd, ok := d.(*ast.GenDecl)
			if !ok || gd.Tok != token.VAR {
				continue
			}
			for _, sp := range gd.Specs {
				vs := sp.(*ast.ValueSpec)
				for i, id := range vs.Names {
					if id.Name != name {
						continue
					}
					if i >= len(vs.Values) || len(vs.Names) != len(vs.Values) {
						valDie("%s: package variable %s has no initialiser of its own", t.pos(at), name)
					}
					ce, ok := vs.Values[i].(*ast.CallExpr)
					if !ok || len(ce.Args) != 1 {
						valDie("%s: package variable %s is not fmt.Errorf(\"text\") / errors.New(\"text\"): %s", t.pos(at), name, t.p.nodeText(vs.Values[i]))
					}
					return t.errCallText(ce)
				}
			}
		}
	}
	valDie("%s: %s is neither a local nor a package-level error variable", t.pos(at), name)
	return ""
}

// fmt.Errorf(<constant format>, ...) / errors.New(<constant>): the format text
func (t *valTr) errCallText(ce *ast.CallExpr) string {
	se, ok := ce.Fun.(*ast.SelectorExpr)
	if ok {
		if id, isId := se.X.(*ast.Ident); isId {
			pk := t.pkgNameOf(id)
			if (pk == "fmt" && se.Sel.Name == "Errorf") || (pk == "errors" && se.Sel.Name == "New") {
				if len(ce.Args) >= 1 {
					if tv, ok := t.p.info.Types[ce.Args[0]]; ok && tv.Value != nil && tv.Value.Kind() == constant.String {
						return constant.StringVal(tv.Value)
					}
				}
				valDie("%s: error text is not a constant: %s", t.pos(ce), t.p.nodeText(ce))
			}
		}
	}
	valDie("%s: unsupported error value %s", t.pos(ce), t.p.nodeText(ce))
	return ""
}

// `return e`: (binds, a term of type result (option <enum of the function>))
func (t *valTr) retValue(e ast.Expr, env valEnv) ([]string, string) {
	raise := func(text string) string {
		return fmt.Sprintf("raise %s %s", t.f.lookup, valCoqText(text))
	}
	switch x := e.(type) {
	case *ast.ParenExpr:
		return t.retValue(x.X, env)
	case *ast.Ident:
		if ty, ok := env[x.Name]; ok {
			if ty.k != vkErr || ty.enum != t.f.enum {
				valDie("%s: return of the local %s of type %s from a function returning %s errors", t.pos(e), x.Name, ty.coq(t.pos(e)), t.f.enum)
			}
			return nil, "Ok v_" + x.Name
		}
		if x.Name == "nil" {
			return nil, "Ok None"
		}
		return nil, raise(t.errVarText(x.Name, e))
	case *ast.CallExpr:
		text := t.errCallText(x)
		// the remaining arguments are evaluated (a selection through nil panics before the error exists)
		var binds []string
		if x.Ellipsis != token.NoPos {
			valDie("%s: variadic call %s", t.pos(x), t.p.nodeText(x))
		}
		for _, a := range x.Args[1:] {
			b, _, _ := t.expr(a, env)
			binds = append(binds, b...)
		}
		return binds, raise(text)
	}
	valDie("%s: unsupported return value %s", t.pos(e), t.p.nodeText(e))
	return nil, ""
}

func valTuple(names []string) string {
	switch len(names) {
	case 0:
		return "tt"
	case 1:
		return "v_" + names[0]
	}
	var vs []string
	for _, n := range names {
		vs = append(vs, "v_"+n)
	}
	return "(" + strings.Join(vs, ", ") + ")"
}

func valPattern(names []string) string {
	switch len(names) {
	case 0:
		return "_"
	case 1:
		return "v_" + names[0]
	}
	return "'" + valTuple(names)
}

// locals of the enclosing function (in env) that the loop body assigns, in order of first assignment
func (t *valTr) assignedOuter(body *ast.BlockStmt, env valEnv) []string {
	var outs []string
	seen := map[string]bool{}
	ast.Inspect(body, func(n ast.Node) bool {
		switch s := n.(type) {
		case *ast.AssignStmt:
			if s.Tok == token.DEFINE {
				return true
			}
			for _, l := range s.Lhs {
				if id, ok := l.(*ast.Ident); ok {
					if _, outer := env[id.Name]; outer && !seen[id.Name] {
						seen[id.Name] = true
						outs = append(outs, id.Name)
					}
				}
			}
		case *ast.IncDecStmt:
			valDie("%s: unsupported statement %s", t.pos(s), t.p.nodeText(s))
		}
		return true
	})
	return outs
}

// the enumeration of an error-typed local: that of the translated functions whose result it receives
func (t *valTr) errEnumOfLocal(name string, at ast.Node) string {
	enum := ""
	ast.Inspect(t.f.fd.Body, func(n ast.Node) bool {
		as, ok := n.(*ast.AssignStmt)
		if !ok || len(as.Lhs) != 1 || len(as.Rhs) != 1 {
			return true
		}
		if id, ok := as.Lhs[0].(*ast.Ident); !ok || id.Name != name {
			return true
		}
		if ce, ok := as.Rhs[0].(*ast.CallExpr); ok {
			if fid, ok := ce.Fun.(*ast.Ident); ok {
				if f, ok := t.funcs[fid.Name]; ok {
					if enum != "" && enum != f.enum {
						valDie("%s: the local %s receives errors of two enumerations (%s, %s)", t.pos(as), name, enum, f.enum)
					}
					enum = f.enum
				}
			}
		}
		return true
	})
	if enum == "" {
		valDie("%s: cannot tell which errors the local %s holds (no assignment from a translated function)", t.pos(at), name)
	}
	return enum
}

func valEmitBinds(binds []string, ind string) string {
	var b strings.Builder
	for _, s := range binds {
		b.WriteString(s + ";;\n" + ind)
	}
	return b.String()
}

func (t *valTr) stmts(ss []ast.Stmt, env valEnv, cx valCtx, ind string) string {
	if len(ss) == 0 {
		if cx.inLoop {
			return "Ok (Continue " + valTuple(cx.state) + ")"
		}
		valDie("%s: control reaches the end of %s without a return", t.pos(t.f.fd), t.f.name)
	}
	s, rest := ss[0], ss[1:]
	next := func() string { return t.stmts(rest, env, cx, ind) }
	first := func() string { return strings.SplitN(t.p.nodeText(s), "\n", 2)[0] }
	switch x := s.(type) {
	case *ast.ReturnStmt:
		if len(x.Results) != 1 {
			valDie("%s: return with %d values", t.pos(s), len(x.Results))
		}
		binds, v := t.retValue(x.Results[0], env)
		if cx.inLoop {
			v = "ret_loop (" + v + ")"
		}
		return valEmitBinds(binds, ind) + v

	case *ast.DeclStmt:
		gd, ok := x.Decl.(*ast.GenDecl)
		if !ok || gd.Tok != token.VAR {
			break
		}
		out := ""
		for _, sp := range gd.Specs {
			vs := sp.(*ast.ValueSpec)
			if len(vs.Values) != 0 || vs.Type == nil {
				valDie("%s: unsupported declaration %s", t.pos(s), first())
			}
			ty := t.sch.typeOf(vs.Type, false, t.p.nodeText(vs.Type))
			for _, id := range vs.Names {
				if _, dup := env[id.Name]; dup || id.Name == "_" {
					valDie("%s: declaration of %s shadows another local", t.pos(s), id.Name)
				}
				var zero string
				lt := *ty
				switch ty.k {
				case vkErr:
					lt.enum = t.errEnumOfLocal(id.Name, s)
					zero = "None"
				case vkPtr:
					zero = "None"
				case vkString:
					zero = "\"\""
				case vkInt:
					zero = "0"
				case vkBool:
					zero = "false"
				default:
					valDie("%s: local %s of unsupported type %s", t.pos(s), id.Name, ty)
				}
				env[id.Name] = &lt
				out += fmt.Sprintf("let v_%s : %s := %s in\n%s", id.Name, lt.coq(t.pos(s)), zero, ind)
			}
		}
		return out + next()

	case *ast.AssignStmt:
		if len(x.Lhs) != 1 || len(x.Rhs) != 1 {
			valDie("%s: unsupported multi-assignment %s", t.pos(s), first())
		}
		id, ok := x.Lhs[0].(*ast.Ident)
		if !ok || id.Name == "_" {
			valDie("%s: unsupported assignment target in %s", t.pos(s), first())
		}
		binds, v, ty := t.expr(x.Rhs[0], env)
		switch x.Tok {
		case token.ASSIGN:
			old, ok := env[id.Name]
			if !ok {
				valDie("%s: assignment to %s, which is not a local", t.pos(s), id.Name)
			}
			if !(valSameType(old, ty) || (ty.k == vkNil && (old.k == vkPtr || old.k == vkErr))) {
				valDie("%s: assignment of a %s to %s of type %s", t.pos(s), ty, id.Name, old)
			}
		case token.DEFINE:
			if _, dup := env[id.Name]; dup {
				valDie("%s: := of %s shadows another local", t.pos(s), id.Name)
			}
			if ty.k == vkNil || ty.k == vkOther {
				valDie("%s: local %s of unsupported type", t.pos(s), id.Name)
			}
			env[id.Name] = ty
		default:
			valDie("%s: unsupported assignment operator in %s", t.pos(s), first())
		}
		// y = f(a): bind the result under the local's name directly
		if n := len(binds); n > 0 && strings.HasPrefix(binds[n-1], v+" <- ") {
			binds[n-1] = "v_" + id.Name + strings.TrimPrefix(binds[n-1], v)
			return valEmitBinds(binds, ind) + next()
		}
		return valEmitBinds(binds, ind) + fmt.Sprintf("let v_%s := %s in\n%s%s", id.Name, v, ind, next())

	case *ast.IfStmt:
		if x.Init != nil {
			valDie("%s: if with an init statement: %s", t.pos(s), first())
		}
		binds, c, ty := t.expr(x.Cond, env)
		if ty.k != vkBool {
			valDie("%s: condition of type %s", t.pos(s), ty)
		}
		thenS := append([]ast.Stmt{}, x.Body.List...)
		var elseS []ast.Stmt
		switch e := x.Else.(type) {
		case nil:
		case *ast.BlockStmt:
			elseS = append(elseS, e.List...)
		default:
			elseS = append(elseS, e)
		}
		if !terminates(thenS) {
			thenS = append(thenS, rest...)
		}
		if !terminates(elseS) {
			elseS = append(elseS, rest...)
		}
		in2 := ind + "  "
		return valEmitBinds(binds, ind) + fmt.Sprintf("if %s then\n%s%s\n%selse\n%s%s", c,
			in2, t.stmts(thenS, env.clone(), cx, in2), ind, in2, t.stmts(elseS, env.clone(), cx, in2))

	case *ast.RangeStmt:
		if cx.inLoop {
			valDie("%s: nested loop", t.pos(s))
		}
		if x.Tok != token.DEFINE {
			valDie("%s: range loop without := : %s", t.pos(s), first())
		}
		if k, ok := x.Key.(*ast.Ident); x.Key != nil && (!ok || k.Name != "_") {
			valDie("%s: range loop that uses the index: %s", t.pos(s), first())
		}
		vid, ok := x.Value.(*ast.Ident)
		if !ok || vid.Name == "_" {
			valDie("%s: range loop without an element variable: %s", t.pos(s), first())
		}
		if _, dup := env[vid.Name]; dup {
			valDie("%s: loop variable %s shadows another local", t.pos(s), vid.Name)
		}
		binds, l, lt := t.expr(x.X, env)
		if lt.k != vkSlice {
			valDie("%s: range over a %s", t.pos(s), lt)
		}
		state := t.assignedOuter(x.Body, env)
		benv := env.clone()
		benv[vid.Name] = lt.elem
		in2 := ind + "    "
		body := t.stmts(x.Body.List, benv, valCtx{inLoop: true, state: state}, in2)
		r := t.tmp()
		return valEmitBinds(binds, ind) + fmt.Sprintf("%s <- range_loop %s (fun v_%s %s =>\n%s%s) %s;;\n%smatch %s with\n%s| Returned r => Ok r\n%s| Continue %s =>\n%s  %s\n%send",
			r, l, vid.Name, valPattern(state), in2, body, valTuple(state), ind, r, ind, ind, valPattern(state), ind, t.stmts(rest, env, cx, ind+"  "), ind)
	}
	valDie("%s: unsupported statement %s", t.pos(s), first())
	return ""
}

// findFunc of main.go exits the whole translator when the function is gone; here that is one more
// reason the file is untranslatable
func valFindFunc(p *pkg, name string) *ast.FuncDecl {
	for _, f := range p.files {
		for _, d := range f.Decls {
			if fd, ok := d.(*ast.FuncDecl); ok && fd.Recv == nil && fd.Name.Name == name {
				return fd
			}
		}
	}
	valDie("function %s not found in %s", name, p.dir)
	return nil
}

func genValidate(out string) {
	const target = "ValidateSrc.v"
	defer func() {
		if r := recover(); r != nil {
			msg, ok := r.(valUnsupported)
			if !ok {
				panic(r)
			}
			fmt.Fprintf(os.Stderr, "go2coq: utils/validate/action_result.go is outside the translated subset: %s\n", string(msg))
			writeIfChanged(filepath.Join(out, target), []byte("(* GENERATED by tools/go2coq (gen_validate.go).  utils/validate/action_result.go could not be translated. *)\nFrom BR Require Import Base.Prelude.\nOpen Scope string_scope.\nDefinition ValidateSrc_untranslatable : string := "+coqString(valPrintable(strings.ReplaceAll(string(msg), repo+"/", "")))+".\n"))
		}
	}()
	p := loadPkg("utils/validate")
	funcs := map[string]*valFn{}
	var order []*valFn
	var file *ast.File
	for _, vf := range valFuncs {
		fd := valFindFunc(p, vf.name)
		for _, f := range p.files {
			for _, d := range f.Decls {
				if d == ast.Decl(fd) {
					if file != nil && file != f {
						valDie("the translated functions live in different files")
					}
					file = f
				}
			}
		}
		f := &valFn{name: vf.name, enum: vf.enum, lookup: vf.lookup, fd: fd}
		funcs[vf.name] = f
		order = append(order, f)
	}
	sch := valLoadSchema(p, file)
	regexes := p.regexes()
	var body bytes.Buffer
	var usedRe []string
	for _, f := range order {
		t := &valTr{p: p, sch: sch, f: f, funcs: funcs, regexes: regexes, usedRe: usedRe}
		fd := f.fd
		if fd.Body == nil || fd.Recv != nil || fd.Type.TypeParams != nil {
			valDie("%s: %s is not a plain function", t.pos(fd), f.name)
		}
		if fd.Type.Results == nil || len(fd.Type.Results.List) != 1 || len(fd.Type.Results.List[0].Names) != 0 ||
			sch.typeOf(fd.Type.Results.List[0].Type, false, "").k != vkErr {
			valDie("%s: %s does not return exactly one unnamed error", t.pos(fd), f.name)
		}
		env := valEnv{}
		var params []string
		for _, fl := range fd.Type.Params.List {
			ty := sch.typeOf(fl.Type, false, p.nodeText(fl.Type))
			if ty.k == vkErr || ty.k == vkOther {
				valDie("%s: parameter of unsupported type %s in %s", t.pos(fl), ty, f.name)
			}
			if len(fl.Names) == 0 {
				valDie("%s: unnamed parameter in %s", t.pos(fl), f.name)
			}
			for _, n := range fl.Names {
				if n.Name == "_" {
					valDie("%s: unnamed parameter in %s", t.pos(fl), f.name)
				}
				env[n.Name] = ty
				f.params = append(f.params, ty)
				params = append(params, fmt.Sprintf("(v_%s : %s)", n.Name, ty.coq(t.pos(fl))))
			}
		}
		code := t.stmts(fd.Body.List, env, valCtx{}, "  ")
		fmt.Fprintf(&body, "(* %s: %s *)\nDefinition ValidateSrc_%s %s : result (option %s) :=\n  %s.\n\n",
			t.pos(fd), f.name, f.name, strings.Join(params, " "), f.enum, code)
		f.done = true
		usedRe = t.usedRe
	}
	var w bytes.Buffer
	w.WriteString("(* GENERATED by tools/go2coq (gen_validate.go) from /repo/utils/validate/action_result.go on every check run.  DO NOT EDIT.\n   Statement-level translation of ActionResult and maybeNilDigest; run-time: Model/GoValidate.v. *)\n")
	w.WriteString("From BR Require Import Base.Prelude Model.ActionResult Model.GoValidate.\nOpen Scope string_scope.\nOpen Scope Z_scope.\n\n")
	for _, name := range usedRe {
		fmt.Fprintf(&w, "(* %s = regexp.MustCompile(..) *)\nDefinition ValidateSrc_re_%s : string := %s.\n\n", name, name, valCoqText(regexes[name]))
	}
	w.Write(body.Bytes())
	writeIfChanged(filepath.Join(out, target), w.Bytes())
}

func valPrintable(s string) string {
	return strings.Map(func(r rune) rune {
		if r > 126 || r < 32 {
			return '?'
		}
		return r
	}, s)
}

// coqString exits the whole translator on a non-printable character; here that is one more
// untranslatable construct
func valCoqText(s string) string {
	for _, r := range s {
		if r > 126 || (r < 32 && r != '\n' && r != '\t') {
			valDie("non-printable character in the string %q", s)
		}
	}
	return coqString(s)
}
