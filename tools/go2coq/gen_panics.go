package main

// Panic-site inventory (C14): every expression in the request-handling packages that can panic
// at run time without a dominating check being syntactically evident:
//   deref   X.f where X has type *T for a protobuf message T of this repository and X is itself a
//           field selection, an index expression, a call result, a dereference, or a range
//           variable over a slice of message pointers (elements and fields may be nil);
//   index   a[i] / a[i:j] on a slice, array or string with a non-constant bound;
//   div     x / y or x % y on integers with a non-constant divisor;
//   make    make(T, n) with a non-constant n;
//   assert  x.(T) without the comma-ok form.
// Emitted as a sorted list of "file:function:kind:expression" strings (no line numbers, so edits
// elsewhere do not disturb it).  Bridge_Panics.v proves the list equal to the reviewed ledger in
// Model/PanicSites.v: a new site (or a removed guard that changes an expression) breaks it.

import (
	"bytes"
	"fmt"
	"go/ast"
	"go/importer"
	"go/parser"
	"go/printer"
	"go/token"
	"go/types"
	"os"
	"path/filepath"
	"sort"
	"strings"
)

func init() { areas = append(areas, genPanics) }

const modulePath = "github.com/buchgr/bazel-remote/v2"

type repoImporter struct {
	fset *token.FileSet
	pkgs map[string]*types.Package
	std  types.Importer
	info map[string]*types.Info
	file map[string][]*ast.File
}

func (ri *repoImporter) Import(path string) (*types.Package, error) {
	if p, ok := ri.pkgs[path]; ok {
		return p, nil
	}
	if strings.HasPrefix(path, modulePath+"/") {
		p := ri.load(strings.TrimPrefix(path, modulePath+"/"))
		return p, nil
	}
	if !strings.Contains(strings.Split(path, "/")[0], ".") {
		if p, err := ri.std.Import(path); err == nil {
			ri.pkgs[path] = p
			return p, nil
		}
	}
	name := filepath.Base(path)
	if strings.HasPrefix(name, "v") && len(name) <= 3 {
		name = filepath.Base(filepath.Dir(path))
	}
	p := types.NewPackage(path, name)
	p.MarkComplete()
	ri.pkgs[path] = p
	return p, nil
}

func (ri *repoImporter) load(dir string) *types.Package {
	full := modulePath + "/" + dir
	if p, ok := ri.pkgs[full]; ok {
		return p
	}
	pkgs, err := parser.ParseDir(ri.fset, filepath.Join(repo, dir), func(fi os.FileInfo) bool {
		n := fi.Name()
		return !strings.HasSuffix(n, "_test.go") && !strings.HasPrefix(n, "verif_") &&
			!strings.HasSuffix(n, "_windows.go") && !strings.HasSuffix(n, "_darwin.go")
	}, 0)
	if err != nil {
		die("parse %s: %v", dir, err)
	}
	var files []*ast.File
	var pname string
	for name, p := range pkgs {
		if strings.HasSuffix(name, "_test") {
			continue
		}
		pname = name
		var names []string
		for fn := range p.Files {
			names = append(names, fn)
		}
		sort.Strings(names)
		for _, fn := range names {
			files = append(files, p.Files[fn])
		}
	}
	_ = pname
	info := &types.Info{Types: map[ast.Expr]types.TypeAndValue{}, Defs: map[*ast.Ident]types.Object{}, Uses: map[*ast.Ident]types.Object{}}
	conf := types.Config{Importer: ri, Error: func(error) {}, FakeImportC: true}
	// register a placeholder first to break import cycles (there are none, but be safe)
	tp, _ := conf.Check(full, ri.fset, files, info)
	ri.pkgs[full] = tp
	ri.info[dir] = info
	ri.file[dir] = files
	return tp
}

func exprText(fset *token.FileSet, e ast.Expr) string {
	var b bytes.Buffer
	_ = printer.Fprint(&b, fset, e)
	return strings.Join(strings.Fields(b.String()), " ")
}

func isRepoMessagePtr(t types.Type) bool {
	p, ok := t.(*types.Pointer)
	if !ok {
		return false
	}
	n, ok := p.Elem().(*types.Named)
	if !ok || n.Obj().Pkg() == nil {
		return false
	}
	if _, isStruct := n.Underlying().(*types.Struct); !isStruct {
		return false
	}
	return strings.HasPrefix(n.Obj().Pkg().Path(), modulePath+"/genproto/")
}

func genPanics(out string) {
	ri := &repoImporter{fset: token.NewFileSet(), pkgs: map[string]*types.Package{}, info: map[string]*types.Info{}, file: map[string][]*ast.File{}}
	ri.std = importer.ForCompiler(ri.fset, "source", nil)
	dirs := []string{"server", "cache/disk", "cache/disk/casblob", "cache/grpcproxy", "utils/validate"}
	var sites []string
	seen := map[string]bool{}
	for _, dir := range dirs {
		ri.load(dir)
		info := ri.info[dir]
		for _, f := range ri.file[dir] {
			fname := filepath.Base(ri.fset.Position(f.Pos()).Filename)
			for _, d := range f.Decls {
				fd, ok := d.(*ast.FuncDecl)
				if !ok || fd.Body == nil {
					continue
				}
				fn := fd.Name.Name
				// range variables over slices of message pointers
				rangeVars := map[types.Object]bool{}
				ast.Inspect(fd.Body, func(n ast.Node) bool {
					if rs, ok := n.(*ast.RangeStmt); ok && rs.Value != nil {
						if id, ok := rs.Value.(*ast.Ident); ok {
							if obj := info.Defs[id]; obj != nil && isRepoMessagePtr(obj.Type()) {
								rangeVars[obj] = true
							}
						}
					}
					return true
				})
				add := func(kind string, e ast.Expr) {
					s := fmt.Sprintf("%s/%s:%s:%s:%s", dir, fname, fn, kind, exprText(ri.fset, e))
					if !seen[s] {
						seen[s] = true
						sites = append(sites, s)
					}
				}
				commaOK := map[ast.Expr]bool{}
				ast.Inspect(fd.Body, func(n ast.Node) bool {
					switch s := n.(type) {
					case *ast.AssignStmt:
						if len(s.Lhs) == 2 && len(s.Rhs) == 1 {
							commaOK[s.Rhs[0]] = true
						}
					case *ast.ValueSpec:
						if len(s.Names) == 2 && len(s.Values) == 1 {
							commaOK[s.Values[0]] = true
						}
					case *ast.TypeSwitchStmt:
						ast.Inspect(s.Assign, func(m ast.Node) bool {
							if ta, ok := m.(*ast.TypeAssertExpr); ok {
								commaOK[ta] = true
							}
							return true
						})
					}
					return true
				})
				ast.Inspect(fd.Body, func(n ast.Node) bool {
					switch x := n.(type) {
					case *ast.SelectorExpr:
						tv, ok := info.Types[x.X]
						if !ok || !isRepoMessagePtr(tv.Type) {
							return true
						}
						// method calls through the pointer (getters) are nil-safe
						if sel := info.Uses[x.Sel]; sel != nil {
							if _, isFunc := sel.(*types.Func); isFunc {
								return true
							}
						}
						switch base := x.X.(type) {
						case *ast.Ident:
							if obj := info.Uses[base]; obj != nil && rangeVars[obj] {
								add("deref", x)
							}
						default:
							add("deref", x)
						}
					case *ast.StarExpr:
						if tv, ok := info.Types[x.X]; ok {
							if p, isP := tv.Type.(*types.Pointer); isP && isRepoMessagePtr(p.Elem()) {
								add("deref", x)
							}
						}
					case *ast.IndexExpr:
						if tv, ok := info.Types[x.X]; ok && tv.Type != nil {
							switch tv.Type.Underlying().(type) {
							case *types.Slice, *types.Array, *types.Basic:
								if itv := info.Types[x.Index]; itv.Value == nil {
									add("index", x)
								}
							}
						}
					case *ast.SliceExpr:
						nonconst := false
						for _, b := range []ast.Expr{x.Low, x.High, x.Max} {
							if b != nil && info.Types[b].Value == nil {
								nonconst = true
							}
						}
						if tv, ok := info.Types[x.X]; ok && tv.Type != nil && nonconst {
							switch tv.Type.Underlying().(type) {
							case *types.Slice, *types.Array, *types.Basic, *types.Pointer:
								add("index", x)
							}
						}
					case *ast.BinaryExpr:
						if x.Op == token.QUO || x.Op == token.REM {
							tv := info.Types[x]
							if b, ok := tv.Type.(*types.Basic); ok && b.Info()&types.IsInteger != 0 && info.Types[x.Y].Value == nil {
								add("div", x)
							} else if tv.Type != nil {
								if b, ok := tv.Type.Underlying().(*types.Basic); ok && b.Info()&types.IsInteger != 0 && info.Types[x.Y].Value == nil {
									add("div", x)
								}
							}
						}
					case *ast.CallExpr:
						if id, ok := x.Fun.(*ast.Ident); ok && id.Name == "make" && len(x.Args) >= 2 {
							for _, a := range x.Args[1:] {
								if info.Types[a].Value == nil {
									add("make", x)
									break
								}
							}
						}
					case *ast.TypeAssertExpr:
						if x.Type != nil && !commaOK[x] {
							add("assert", x)
						}
					}
					return true
				})
			}
		}
	}
	sort.Strings(sites)
	var w bytes.Buffer
	w.WriteString(header)
	w.WriteString("(* panic-site inventory of server/, cache/disk/, cache/disk/casblob/, cache/grpcproxy/, utils/validate/ *)\n")
	w.WriteString("Definition panic_sites : list string := [\n")
	for i, s := range sites {
		sep := ";"
		if i == len(sites)-1 {
			sep = ""
		}
		fmt.Fprintf(&w, "  %s%s\n", coqString(s), sep)
	}
	w.WriteString("].\n")
	writeIfChanged(filepath.Join(out, "Panics.v"), w.Bytes())
}
