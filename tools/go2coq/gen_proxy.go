package main

// Gen/ProxySrc.v: what the model of the real proxy backends (Model/ProxyBackends.v; C12) takes from
// the source of cache/httpproxy, cache/grpcproxy (grpcproxy.go, readcloser.go) and
// utils/backendproxy:
//
//   - the constant maxChunkSize (the chunk theorem of Properties/C12_backends.v is proved from it);
//   - for every function of the read and write paths its control skeleton as literal text: every
//     statement in source order with its nesting depth, logging and metrics calls left out, so that an
//     added, removed, reordered or edited check, return value, close or send breaks an obligation of
//     Bridge/Bridge_ProxyBackends.v and sends the reader back to the model;
//   - the tests of the HTTP status code with the numeric value of the net/http constant compared
//     with, in source order;
//   - the format strings of the resource names.

import (
	"bytes"
	"fmt"
	"go/ast"
	"go/constant"
	"go/token"
	"path/filepath"
	"strconv"
	"strings"
)

func init() { areas = append(areas, genProxy) }

// like findFunc, but also finds methods of generic types (receiver *T[M])
func prxFindFunc(p *pkg, recv, name string) *ast.FuncDecl {
	for _, f := range p.files {
		for _, d := range f.Decls {
			fd, ok := d.(*ast.FuncDecl)
			if !ok || fd.Name.Name != name {
				continue
			}
			r := ""
			if fd.Recv != nil && len(fd.Recv.List) == 1 {
				t := fd.Recv.List[0].Type
				if st, ok := t.(*ast.StarExpr); ok {
					t = st.X
				}
				if ix, ok := t.(*ast.IndexExpr); ok {
					t = ix.X
				}
				if ix, ok := t.(*ast.IndexListExpr); ok {
					t = ix.X
				}
				if id, ok := t.(*ast.Ident); ok {
					r = id.Name
				}
			}
			if r == recv {
				return fd
			}
		}
	}
	die("function %s.%s not found in %s", recv, name, p.dir)
	return nil
}

// a call that only logs or counts (not part of the modelled behaviour)
func prxIsLogging(p *pkg, s ast.Stmt) bool {
	es, ok := s.(*ast.ExprStmt)
	if !ok {
		return false
	}
	c, ok := es.X.(*ast.CallExpr)
	if !ok {
		return false
	}
	t := p.nodeText(c.Fun)
	return t == "logResponse" || strings.HasSuffix(t, "Logger.Printf") || strings.HasSuffix(t, ".Inc") || t == "log.Printf" || t == "log.Println"
}

type prxSkel struct {
	p   *pkg
	out []string
}

func (k *prxSkel) line(depth int, s string) {
	k.out = append(k.out, strconv.Itoa(depth)+" "+s)
}

func (k *prxSkel) simple(s ast.Stmt) string {
	if s == nil {
		return ""
	}
	return k.p.nodeText(s)
}

func (k *prxSkel) block(depth int, ss []ast.Stmt) {
	for _, s := range ss {
		k.stmt(depth, s)
	}
}

func (k *prxSkel) stmt(depth int, s ast.Stmt) {
	switch s := s.(type) {
	case *ast.IfStmt:
		h := "if "
		if s.Init != nil {
			h += k.simple(s.Init) + "; "
		}
		k.line(depth, h+k.p.nodeText(s.Cond))
		k.block(depth+1, s.Body.List)
		if s.Else != nil {
			k.line(depth, "else")
			if eb, ok := s.Else.(*ast.BlockStmt); ok {
				k.block(depth+1, eb.List)
			} else {
				k.stmt(depth+1, s.Else)
			}
		}
	case *ast.ForStmt:
		h := "for"
		if s.Init != nil || s.Post != nil {
			h += " " + k.simple(s.Init) + "; "
			if s.Cond != nil {
				h += k.p.nodeText(s.Cond)
			}
			h += "; " + k.simple(s.Post)
		} else if s.Cond != nil {
			h += " " + k.p.nodeText(s.Cond)
		}
		k.line(depth, h)
		k.block(depth+1, s.Body.List)
	case *ast.RangeStmt:
		h := "for "
		if s.Key != nil {
			h += k.p.nodeText(s.Key)
			if s.Value != nil {
				h += ", " + k.p.nodeText(s.Value)
			}
			h += " " + s.Tok.String() + " "
		}
		k.line(depth, h+"range "+k.p.nodeText(s.X))
		k.block(depth+1, s.Body.List)
	case *ast.SwitchStmt:
		h := "switch"
		if s.Init != nil {
			h += " " + k.simple(s.Init) + ";"
		}
		if s.Tag != nil {
			h += " " + k.p.nodeText(s.Tag)
		}
		k.line(depth, h)
		k.block(depth+1, s.Body.List)
	case *ast.TypeSwitchStmt:
		k.line(depth, "switch "+k.simple(s.Assign))
		k.block(depth+1, s.Body.List)
	case *ast.CaseClause:
		if s.List == nil {
			k.line(depth, "default")
		} else {
			var xs []string
			for _, e := range s.List {
				xs = append(xs, k.p.nodeText(e))
			}
			k.line(depth, "case "+strings.Join(xs, ", "))
		}
		k.block(depth+1, s.Body)
	case *ast.SelectStmt:
		k.line(depth, "select")
		k.block(depth+1, s.Body.List)
	case *ast.CommClause:
		if s.Comm == nil {
			k.line(depth, "default")
		} else {
			k.line(depth, "case "+k.simple(s.Comm))
		}
		k.block(depth+1, s.Body)
	case *ast.BlockStmt:
		k.line(depth, "{")
		k.block(depth+1, s.List)
	case *ast.LabeledStmt:
		k.line(depth, s.Label.Name+":")
		k.stmt(depth, s.Stmt)
	case *ast.GoStmt:
		if fl, ok := s.Call.Fun.(*ast.FuncLit); ok {
			k.line(depth, "go func")
			k.block(depth+1, fl.Body.List)
		} else {
			k.line(depth, k.p.nodeText(s))
		}
	case *ast.EmptyStmt:
	default:
		if prxIsLogging(k.p, s) {
			return
		}
		if ds, ok := s.(*ast.DeclStmt); ok {
			if gd, ok := ds.Decl.(*ast.GenDecl); ok && gd.Doc != nil {
				// the printer would prepend the comment above the declaration
				doc := gd.Doc
				gd.Doc = nil
				k.line(depth, k.p.nodeText(s))
				gd.Doc = doc
				return
			}
		}
		k.line(depth, k.p.nodeText(s))
	}
}

func prxSkeleton(p *pkg, recv, name string) []string {
	fd := prxFindFunc(p, recv, name)
	k := &prxSkel{p: p}
	k.block(0, fd.Body.List)
	if len(k.out) == 0 {
		die("%s.%s has an empty body", recv, name)
	}
	return k.out
}

// the comparisons  X.StatusCode <op> <constant>  of a function, in source order, with the value
// of the constant: (operator, value)
func prxStatusTests(p *pkg, recv, name string) [][2]string {
	fd := prxFindFunc(p, recv, name)
	var out [][2]string
	ast.Inspect(fd.Body, func(n ast.Node) bool {
		be, ok := n.(*ast.BinaryExpr)
		if !ok {
			return true
		}
		if be.Op != token.EQL && be.Op != token.NEQ && be.Op != token.LSS && be.Op != token.LEQ && be.Op != token.GTR && be.Op != token.GEQ {
			return true
		}
		sel, ok := be.X.(*ast.SelectorExpr)
		if !ok || sel.Sel.Name != "StatusCode" {
			return true
		}
		val := ""
		if tv, ok := p.info.Types[be.Y]; ok && tv.Value != nil && tv.Value.Kind() == constant.Int {
			val = tv.Value.ExactString()
		} else if bl, ok := be.Y.(*ast.BasicLit); ok && bl.Kind == token.INT {
			val = bl.Value
		} else {
			// net/http's status constants, should the type checker not have resolved the import
			known := map[string]string{"http.StatusOK": "200", "http.StatusNotFound": "404", "http.StatusNoContent": "204",
				"http.StatusCreated": "201", "http.StatusAccepted": "202", "http.StatusPartialContent": "206"}
			v, ok := known[p.nodeText(be.Y)]
			if !ok {
				die("%s.%s: cannot evaluate the status constant %s", recv, name, p.nodeText(be.Y))
			}
			val = v
		}
		out = append(out, [2]string{be.Op.String(), val})
		return true
	})
	return out
}

func genProxy(out string) {
	hp := load("cache/httpproxy")
	gp := load("cache/grpcproxy")
	bp := load("utils/backendproxy")

	var w bytes.Buffer
	w.WriteString(header)
	emit := func(name string, xs []string) {
		fmt.Fprintf(&w, "Definition %s : list string := [\n", name)
		for i, x := range xs {
			sep := ";"
			if i == len(xs)-1 {
				sep = ""
			}
			fmt.Fprintf(&w, "  %s%s\n", coqString(x), sep)
		}
		fmt.Fprintf(&w, "].\n")
	}
	emitTests := func(name string, ts [][2]string) {
		var xs []string
		for _, t := range ts {
			xs = append(xs, fmt.Sprintf("(%s, %s)", coqString(t[0]), coqZ(t[1])))
		}
		fmt.Fprintf(&w, "Definition %s : list (string * Z) := [%s].\n", name, strings.Join(xs, "; "))
	}

	w.WriteString("(* cache/grpcproxy/grpcproxy.go *)\n")
	gp.emitConst(&w, "maxChunkSize", "maxChunkSize")
	emit("lits_grpcproxy_Get", gp.funcLiterals("remoteGrpcProxyCache", "Get"))
	emit("lits_grpcproxy_UploadFile", gp.funcLiterals("remoteGrpcProxyCache", "UploadFile"))
	emit("lits_grpcproxy_fetchBlobDigest", gp.funcLiterals("remoteGrpcProxyCache", "fetchBlobDigest"))
	emit("skel_grpcproxy_Get", prxSkeleton(gp, "remoteGrpcProxyCache", "Get"))
	emit("skel_grpcproxy_Contains", prxSkeleton(gp, "remoteGrpcProxyCache", "Contains"))
	emit("skel_grpcproxy_fetchBlobDigest", prxSkeleton(gp, "remoteGrpcProxyCache", "fetchBlobDigest"))
	emit("skel_grpcproxy_UploadFile", prxSkeleton(gp, "remoteGrpcProxyCache", "UploadFile"))
	emit("skel_grpcproxy_Put", prxSkeleton(gp, "remoteGrpcProxyCache", "Put"))
	emit("skel_grpcproxy_New", prxSkeleton(gp, "", "New"))

	w.WriteString("(* cache/grpcproxy/readcloser.go *)\n")
	emit("skel_readcloser_readFromBuf", prxSkeleton(gp, "StreamReadCloser", "readFromBuf"))
	emit("skel_readcloser_Read", prxSkeleton(gp, "StreamReadCloser", "Read"))
	emit("skel_readcloser_Close", prxSkeleton(gp, "StreamReadCloser", "Close"))

	w.WriteString("(* cache/httpproxy/httpproxy.go *)\n")
	emit("skel_httpproxy_Get", prxSkeleton(hp, "remoteHTTPProxyCache", "Get"))
	emit("skel_httpproxy_Contains", prxSkeleton(hp, "remoteHTTPProxyCache", "Contains"))
	emit("skel_httpproxy_UploadFile", prxSkeleton(hp, "remoteHTTPProxyCache", "UploadFile"))
	emit("skel_httpproxy_Put", prxSkeleton(hp, "remoteHTTPProxyCache", "Put"))
	emitTests("status_tests_httpproxy_Get", prxStatusTests(hp, "remoteHTTPProxyCache", "Get"))
	emitTests("status_tests_httpproxy_Contains", prxStatusTests(hp, "remoteHTTPProxyCache", "Contains"))
	emitTests("status_tests_httpproxy_UploadFile", prxStatusTests(hp, "remoteHTTPProxyCache", "UploadFile"))
	emit("lits_httpproxy_New", hp.funcLiterals("", "New"))

	w.WriteString("(* utils/backendproxy/backendproxy.go *)\n")
	emit("skel_backendproxy_StartUploaders", prxSkeleton(bp, "", "StartUploaders"))

	writeIfChanged(filepath.Join(out, "ProxySrc.v"), w.Bytes())
}
