package main

import (
	"bytes"
	"fmt"
	"path/filepath"
	"sort"
)

// What is regenerated.  Every name below is looked up in the working tree; a missing or
// untranslatable item stops the translator (and therefore the check).
func init() { areas = append(areas, genCore) }

func genCore(out string) {
	disk := load("cache/disk")
	casblob := load("cache/disk/casblob")
	cachep := load("cache")
	server := load("server")
	validate := load("utils/validate")

	// ---- Consts.v
	var w bytes.Buffer
	w.WriteString(header)
	w.WriteString("(* cache/disk *)\n")
	disk.emitConst(&w, "BlockSize", "BlockSize")
	disk.emitConst(&w, "sha256HashStrSize", "sha256HashStrSize")
	disk.emitConst(&w, "disk_emptySha256", "emptySha256")
	disk.emitConst(&w, "batchSize", "batchSize")
	disk.emitConst(&w, "lowercaseDSStoreFile", "lowercaseDSStoreFile")
	disk.emitConst(&w, "lostAndFound", "lostAndFound")
	disk.emitVarLiteral(&w, "emptyZstdBlob", "emptyZstdBlob")
	w.WriteString("(* cache/disk/casblob *)\n")
	casblob.emitConst(&w, "defaultChunkSize", "defaultChunkSize")
	casblob.emitConst(&w, "chunkTableOffset", "chunkTableOffset")
	casblob.emitConst(&w, "skippableFrameMagicNumber", "skippableFrameMagicNumber")
	casblob.emitConst(&w, "Identity", "Identity")
	casblob.emitConst(&w, "Zstandard", "Zstandard")
	w.WriteString("(* server *)\n")
	server.emitConst(&w, "hashKeyLength", "hashKeyLength")
	server.emitConst(&w, "server_emptySha256", "emptySha256")
	server.emitConst(&w, "maxInlineSize", "maxInlineSize")
	w.WriteString("(* regular expressions, by the identifier they are bound to *)\n")
	for _, pr := range []struct {
		p      *pkg
		prefix string
	}{{disk, "re_disk_"}, {server, "re_server_"}, {validate, "re_validate_"}} {
		rs := pr.p.regexes()
		var names []string
		for n := range rs {
			names = append(names, n)
		}
		sort.Strings(names)
		for _, n := range names {
			fmt.Fprintf(&w, "Definition %s%s : string := %s.\n", pr.prefix, n, coqString(rs[n]))
		}
	}
	w.WriteString("(* server: methods that need no credentials when allow_unauthenticated_reads is set *)\n")
	keys := server.mapKeys("readOnlyMethods")
	fmt.Fprintf(&w, "Definition readOnlyMethods : list string := [\n")
	for i, k := range keys {
		sep := ";"
		if i == len(keys)-1 {
			sep = ""
		}
		fmt.Fprintf(&w, "  %s%s\n", coqString(k), sep)
	}
	fmt.Fprintf(&w, "].\n")
	writeIfChanged(filepath.Join(out, "Consts.v"), w.Bytes())

	// ---- Funcs.v: small pure functions with explicit wrap-around
	w.Reset()
	w.WriteString(header)
	w.WriteString("Module Gen.\n\n")
	disk.emitConstInline(&w)
	disk.emitFunc(&w, "roundUp4k", "", "roundUp4k", nil)
	disk.emitFunc(&w, "sumLargerThan", "", "sumLargerThan", nil)
	disk.emitFunc(&w, "isSizeMismatch", "", "isSizeMismatch", nil)
	casblob.emitConstInline(&w)
	casblob.emitFunc(&w, "header_size", "header", "size", []string{"h_chunkOffsets:list Z"})
	casblob.emitFunc(&w, "header_frameSize", "header", "frameSize", []string{"h_chunkOffsets:list Z"})
	cachep.emitFunc(&w, "EntryKind_String", "EntryKind", "String", []string{"e:Z"})
	cachep.emitFunc(&w, "EntryKind_DirName", "EntryKind", "DirName", []string{"e:Z"})
	w.WriteString("End Gen.\n")
	writeIfChanged(filepath.Join(out, "Funcs.v"), w.Bytes())
}

// package-level integer constants referenced by translated functions appear as v_<name>
func (p *pkg) emitConstInline(w *bytes.Buffer) {}
