package main

// Each gen_<area>.go registers a generator that writes its own file(s) under coq/Gen.
var areas []func(out string)

var pkgCache = map[string]*pkg{}

// load returns the parsed and (best-effort) type-checked package in /repo/<dir>, cached.
func load(dir string) *pkg {
	if p, ok := pkgCache[dir]; ok {
		return p
	}
	p := loadPkg(dir)
	pkgCache[dir] = p
	return p
}

func gen(out string) {
	for _, a := range areas {
		a(out)
	}
}
